package oracle

import (
	"fmt"
	"go/constant"
	gotoken "go/token"
	"reflect"
	"strings"
)

// ShapeOpts tunes the structural comparison.
type ShapeOpts struct {
	IgnoreParens   bool // treat ParenExpr{X} as X on both sides
	LiteralByValue bool // compare numeric BasicLit values by constant value (formatters may normalise spellings)
	SortImports    bool // compare import specs of a GenDecl as a multiset
	DropEmptyStmt  bool // ignore EmptyStmt elements of statement lists (printers emit nothing for them)
	// IgnoreFields lists extra "Type.Field" or "Field" names to skip.
	IgnoreFields map[string]bool
}

var shapeSkip = map[string]bool{
	"Obj": true, "Scope": true, "Unresolved": true, "Doc": true, "Comment": true, "Comments": true, "Imports": true, "Code": true,
	"File.ShadowEntry": true, "File.FileStart": true, "File.FileEnd": true, "File.GoVersion": true,
}

var posType = reflect.TypeOf(gotoken.Pos(0))

// ShapeDiff returns "" if a and b have the same shape, else a description of the first difference.
// It works across go/ast and xgo/ast: struct types are matched by name and fields by name; a field that
// exists on one side only must be zero there.
func ShapeDiff(a, b any, o ShapeOpts) string {
	return shapeDiff(reflect.ValueOf(a), reflect.ValueOf(b), "", o, 0)
}

func unwrap(v reflect.Value) reflect.Value {
	for v.IsValid() && (v.Kind() == reflect.Interface || v.Kind() == reflect.Ptr) {
		if v.IsNil() {
			return reflect.Value{}
		}
		v = v.Elem()
	}
	return v
}

func stripParen(v reflect.Value) reflect.Value {
	for {
		u := unwrap(v)
		if !u.IsValid() || u.Kind() != reflect.Struct || u.Type().Name() != "ParenExpr" {
			return v
		}
		v = u.FieldByName("X")
	}
}

func isZeroish(v reflect.Value) bool {
	if !v.IsValid() {
		return true
	}
	switch v.Kind() {
	case reflect.Ptr, reflect.Interface, reflect.Map, reflect.Func, reflect.Chan:
		return v.IsNil()
	case reflect.Slice:
		return v.Len() == 0
	}
	return v.IsZero()
}

func shapeDiff(a, b reflect.Value, path string, o ShapeOpts, depth int) string {
	if depth > 10000 {
		return path + ": too deep"
	}
	if o.IgnoreParens {
		a, b = stripParen(a), stripParen(b)
	}
	ua, ub := unwrap(a), unwrap(b)
	if !ua.IsValid() || !ub.IsValid() {
		if ua.IsValid() != ub.IsValid() {
			// nil vs empty slice is fine
			if ua.IsValid() && isZeroish(ua) || ub.IsValid() && isZeroish(ub) {
				return ""
			}
			return fmt.Sprintf("%s: nil vs non-nil (%s / %s)", path, describe(ua), describe(ub))
		}
		return ""
	}
	if ua.Kind() != ub.Kind() {
		return fmt.Sprintf("%s: kind %s vs %s", path, ua.Kind(), ub.Kind())
	}
	switch ua.Kind() {
	case reflect.Struct:
		ta, tb := ua.Type(), ub.Type()
		if ta.Name() != tb.Name() {
			return fmt.Sprintf("%s: node type %s vs %s", path, ta.Name(), tb.Name())
		}
		name := ta.Name()
		if o.LiteralByValue && name == "BasicLit" {
			va, vb := ua.FieldByName("Value").String(), ub.FieldByName("Value").String()
			ka, kb := fmt.Sprint(ua.FieldByName("Kind").Interface()), fmt.Sprint(ub.FieldByName("Kind").Interface())
			if ka == kb && (ka == "INT" || ka == "FLOAT" || ka == "IMAG") && va != vb {
				ca := constant.MakeFromLiteral(va, litTok(ka), 0)
				cb := constant.MakeFromLiteral(vb, litTok(kb), 0)
				if ca.Kind() != constant.Unknown && constant.Compare(ca, gotoken.EQL, cb) {
					return ""
				}
			}
		}
		seen := map[string]bool{}
		for i := 0; i < ta.NumField(); i++ {
			f := ta.Field(i)
			if !f.IsExported() {
				continue
			}
			seen[f.Name] = true
			if shapeSkip[f.Name] || shapeSkip[name+"."+f.Name] || o.IgnoreFields[f.Name] || o.IgnoreFields[name+"."+f.Name] || f.Type == posType {
				continue
			}
			fa := ua.Field(i)
			fbT, ok := tb.FieldByName(f.Name)
			if !ok && name == "SendStmt" && f.Name == "Value" {
				// go/ast.SendStmt.Value corresponds to the single element of xgo/ast.SendStmt.Values
				if vs := ub.FieldByName("Values"); vs.IsValid() && vs.Kind() == reflect.Slice {
					seen["Values"] = true
					if vs.Len() != 1 {
						return fmt.Sprintf("%s.Values: %d values for a Go send statement", path, vs.Len())
					}
					if d := shapeDiff(fa, vs.Index(0), path+".Value", o, depth+1); d != "" {
						return d
					}
					continue
				}
			}
			if !ok {
				if !isZeroish(fa) {
					return fmt.Sprintf("%s.%s: field only on the left and not zero (%s)", path, f.Name, describe(fa))
				}
				continue
			}
			fb := ub.FieldByIndex(fbT.Index)
			if o.SortImports && name == "GenDecl" && f.Name == "Specs" {
				if d := importMultisetDiff(fa, fb, path+"."+f.Name, o, depth); d != "" {
					return d
				}
				continue
			}
			if d := shapeDiff(fa, fb, path+"."+f.Name, o, depth+1); d != "" {
				return d
			}
		}
		for i := 0; i < tb.NumField(); i++ {
			f := tb.Field(i)
			if name == "SendStmt" && f.Name == "Values" && seen["Values"] {
				continue
			}
			if !f.IsExported() || seen[f.Name] || shapeSkip[f.Name] || shapeSkip[name+"."+f.Name] || o.IgnoreFields[f.Name] || o.IgnoreFields[name+"."+f.Name] || f.Type == posType {
				continue
			}
			if !isZeroish(ub.Field(i)) {
				return fmt.Sprintf("%s.%s: field only on the right and not zero (%s)", path, f.Name, describe(ub.Field(i)))
			}
		}
		return ""
	case reflect.Slice:
		if ua.Type().Elem().Kind() == reflect.Uint8 {
			return ""
		}
		if o.DropEmptyStmt {
			ua, ub = dropEmpty(ua), dropEmpty(ub)
		}
		if ua.Len() != ub.Len() {
			return fmt.Sprintf("%s: length %d vs %d", path, ua.Len(), ub.Len())
		}
		for i := 0; i < ua.Len(); i++ {
			if d := shapeDiff(ua.Index(i), ub.Index(i), fmt.Sprintf("%s[%d]", path, i), o, depth+1); d != "" {
				return d
			}
		}
		return ""
	case reflect.String:
		if ua.String() != ub.String() {
			return fmt.Sprintf("%s: %q vs %q", path, ua.String(), ub.String())
		}
		return ""
	case reflect.Bool:
		if ua.Bool() != ub.Bool() {
			return fmt.Sprintf("%s: %v vs %v", path, ua.Bool(), ub.Bool())
		}
		return ""
	case reflect.Int, reflect.Int8, reflect.Int16, reflect.Int32, reflect.Int64, reflect.Uint, reflect.Uint8, reflect.Uint16, reflect.Uint32, reflect.Uint64:
		// tokens of different packages have different numeric values: compare their spelling
		sa, sb := fmt.Sprint(ua.Interface()), fmt.Sprint(ub.Interface())
		if sa != sb {
			return fmt.Sprintf("%s: %s vs %s", path, sa, sb)
		}
		return ""
	}
	return ""
}

func litTok(k string) gotoken.Token {
	switch k {
	case "INT":
		return gotoken.INT
	case "FLOAT":
		return gotoken.FLOAT
	}
	return gotoken.IMAG
}

func describe(v reflect.Value) string {
	if !v.IsValid() {
		return "nil"
	}
	u := unwrap(v)
	if !u.IsValid() {
		return "nil"
	}
	if u.Kind() == reflect.Struct {
		s := u.Type().Name()
		if f := u.FieldByName("Name"); f.IsValid() && f.Kind() == reflect.String {
			s += ":" + f.String()
		}
		if f := u.FieldByName("Value"); f.IsValid() && f.Kind() == reflect.String {
			s += ":" + f.String()
		}
		return s
	}
	if u.Kind() == reflect.Slice {
		return fmt.Sprintf("%s(len %d)", u.Type(), u.Len())
	}
	return fmt.Sprintf("%v", u.Interface())
}

// importMultisetDiff compares two spec lists; import specs are compared as a multiset of (name,path).
func importMultisetDiff(a, b reflect.Value, path string, o ShapeOpts, depth int) string {
	ua, ub := unwrap(a), unwrap(b)
	if !ua.IsValid() || !ub.IsValid() {
		return shapeDiff(a, b, path, ShapeOpts{IgnoreParens: o.IgnoreParens, LiteralByValue: o.LiteralByValue}, depth+1)
	}
	key := func(v reflect.Value) (string, bool) {
		u := unwrap(v)
		if !u.IsValid() || u.Type().Name() != "ImportSpec" {
			return "", false
		}
		n := ""
		if nm := unwrap(u.FieldByName("Name")); nm.IsValid() {
			n = nm.FieldByName("Name").String()
		}
		p := ""
		if pv := unwrap(u.FieldByName("Path")); pv.IsValid() {
			p = pv.FieldByName("Value").String()
		}
		return n + " " + p, true
	}
	if ua.Len() == 0 || ub.Len() == 0 {
		if ua.Len() != ub.Len() {
			return fmt.Sprintf("%s: length %d vs %d", path, ua.Len(), ub.Len())
		}
		return ""
	}
	if _, isImp := key(ua.Index(0)); !isImp {
		oo := o
		oo.SortImports = false
		if ua.Len() != ub.Len() {
			return fmt.Sprintf("%s: length %d vs %d", path, ua.Len(), ub.Len())
		}
		for i := 0; i < ua.Len(); i++ {
			if d := shapeDiff(ua.Index(i), ub.Index(i), fmt.Sprintf("%s[%d]", path, i), oo, depth+1); d != "" {
				return d
			}
		}
		return ""
	}
	// exact duplicates may be removed by import sorting: compare as sets
	inA, inB := map[string]bool{}, map[string]bool{}
	for i := 0; i < ua.Len(); i++ {
		k, _ := key(ua.Index(i))
		inA[k] = true
	}
	for i := 0; i < ub.Len(); i++ {
		k, _ := key(ub.Index(i))
		inB[k] = true
	}
	var diffs []string
	for k := range inA {
		if !inB[k] {
			diffs = append(diffs, fmt.Sprintf("%q missing on the right", k))
		}
	}
	for k := range inB {
		if !inA[k] {
			diffs = append(diffs, fmt.Sprintf("%q added on the right", k))
		}
	}
	if len(diffs) > 0 {
		return fmt.Sprintf("%s: import multiset differs: %s", path, strings.Join(diffs, " "))
	}
	return ""
}

func dropEmpty(v reflect.Value) reflect.Value {
	has := false
	for i := 0; i < v.Len(); i++ {
		if u := unwrap(v.Index(i)); u.IsValid() && u.Kind() == reflect.Struct && u.Type().Name() == "EmptyStmt" {
			has = true
			break
		}
	}
	if !has {
		return v
	}
	out := reflect.MakeSlice(v.Type(), 0, v.Len())
	for i := 0; i < v.Len(); i++ {
		if u := unwrap(v.Index(i)); u.IsValid() && u.Kind() == reflect.Struct && u.Type().Name() == "EmptyStmt" {
			continue
		}
		out = reflect.Append(out, v.Index(i))
	}
	return out
}
