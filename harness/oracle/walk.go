// Package oracle holds the independent tree tools: a reflection-based child
// enumerator (never ast.Walk), a cross-package shape comparator and span
// utilities. They work on go/ast and xgo/ast alike.
package oracle

import (
	"fmt"
	gotoken "go/token"
	"reflect"
	"strings"
)

// Node is satisfied by go/ast.Node and xgo/ast.Node (token.Pos is an alias).
type Node interface {
	Pos() gotoken.Pos
	End() gotoken.Pos
}

var nodeType = reflect.TypeOf((*Node)(nil)).Elem()

// fields that are not children (resolver data, duplicates, raw bytes)
var nonChild = map[string]bool{
	"Obj": true, "Scope": true, "Unresolved": true, "Code": true,
	"File.Imports": true, "File.Comments": true, "File.ShadowEntry": true,
	"File.GoVersion": true, "File.FileStart": true, "File.FileEnd": true,
}

type WalkOpts struct {
	Comments bool // include Doc/Comment comment groups
}

// Children lists the direct, non-nil child nodes of n in struct field order.
func Children(n any, o WalkOpts) []Node {
	var out []Node
	v := reflect.ValueOf(n)
	if v.Kind() == reflect.Interface || v.Kind() == reflect.Ptr {
		if v.IsNil() {
			return nil
		}
		v = v.Elem()
	}
	if v.Kind() != reflect.Struct {
		return nil
	}
	collectFields(v, v.Type().Name(), o, &out, 0)
	return out
}

func collectFields(v reflect.Value, tname string, o WalkOpts, out *[]Node, depth int) {
	t := v.Type()
	for i := 0; i < t.NumField(); i++ {
		f := t.Field(i)
		if !f.IsExported() {
			continue
		}
		if nonChild[f.Name] || nonChild[tname+"."+f.Name] {
			continue
		}
		fv := v.Field(i)
		if !o.Comments && isCommentGroup(f.Type) {
			continue
		}
		collectValue(fv, o, out, depth)
	}
}

func isCommentGroup(t reflect.Type) bool {
	return t.Kind() == reflect.Ptr && t.Elem().Name() == "CommentGroup"
}

func collectValue(fv reflect.Value, o WalkOpts, out *[]Node, depth int) {
	switch fv.Kind() {
	case reflect.Interface, reflect.Ptr:
		if fv.IsNil() {
			return
		}
		if fv.Type().Implements(nodeType) || (fv.Kind() == reflect.Interface && fv.Elem().Type().Implements(nodeType)) {
			if n, ok := fv.Interface().(Node); ok {
				if !o.Comments && isCommentGroup(reflect.TypeOf(n)) {
					return
				}
				if rt := reflect.TypeOf(n); rt.Kind() == reflect.Ptr && strings.Contains(rt.Elem().PkgPath(), "tpl/ast") {
					return // embedded TPL grammar file: a different tree
				}
				*out = append(*out, n)
				return
			}
		}
		// non-node container (StringLitEx, DomainTextLitEx, any-typed Extra)
		ev := fv
		for ev.Kind() == reflect.Interface || ev.Kind() == reflect.Ptr {
			if ev.IsNil() {
				return
			}
			ev = ev.Elem()
		}
		if ev.Kind() == reflect.Struct && depth < 3 {
			pk := ev.Type().PkgPath()
			if strings.HasSuffix(pk, "/ast") || pk == "go/ast" {
				if strings.Contains(pk, "tpl/ast") {
					return // embedded TPL grammar file: a different tree
				}
				collectFields(ev, ev.Type().Name(), o, out, depth+1)
			}
		}
	case reflect.Slice:
		if fv.Type().Elem().Kind() == reflect.Uint8 {
			return
		}
		for j := 0; j < fv.Len(); j++ {
			collectValue(fv.Index(j), o, out, depth)
		}
	}
}

// Walk calls f for every node reachable from n (pre-order). f returning false prunes.
func Walk(n Node, o WalkOpts, f func(n Node, depth int) bool) {
	walk(n, o, f, 0)
}

func walk(n Node, o WalkOpts, f func(n Node, depth int) bool, d int) {
	if n == nil || reflect.ValueOf(n).IsNil() {
		return
	}
	if !f(n, d) {
		return
	}
	for _, c := range Children(n, o) {
		walk(c, o, f, d+1)
	}
}

// Kind is the short type name of a node ("BinaryExpr").
func Kind(n any) string {
	t := reflect.TypeOf(n)
	for t.Kind() == reflect.Ptr {
		t = t.Elem()
	}
	return t.Name()
}

// HasBad reports the first Bad* node reachable from n.
func HasBad(n Node) string {
	bad := ""
	Walk(n, WalkOpts{}, func(c Node, _ int) bool {
		if k := Kind(c); strings.HasPrefix(k, "Bad") {
			bad = k
			return false
		}
		return bad == ""
	})
	return bad
}

// CountNodes counts nodes and records kinds.
func CountNodes(n Node, kinds map[string]int) int {
	cnt := 0
	Walk(n, WalkOpts{}, func(c Node, _ int) bool {
		cnt++
		if kinds != nil {
			kinds[Kind(c)]++
		}
		return true
	})
	return cnt
}

var _ = fmt.Sprint
