package conc

import (
	"context"
	"encoding/json"
	"errors"
	"fmt"
	"io"
	"net"
	"os"
	"runtime"
	"sort"
	"strings"
	"sync"
	"sync/atomic"

	"github.com/goplus/xgo/x/jsonrpc2"

	"verif/fw"
)

// C39 — every JSON-RPC call completes exactly once with its own answer (histories + race detector + yield hooks).
type c39 struct{ Base }

func init() { fw.Register(&c39{Base: Base{Id: "C39", Lvl: "exploration"}}) }

func (p *c39) Setup(env *fw.Env) error {
	p.Env = env
	installHooks()
	p.N = env.Pick(1500, 60000)
	p.RuleS = "random scenarios on a client/server connection pair over net.Pipe: both ends run 1..2 caller goroutines issuing 2..8 calls and notifications carrying a unique token (side, goroutine, n); handlers choose per request: echo, slow echo (yields), asynchronous response (ErrAsyncResponse + Respond from another goroutine), error, call back into the peer; each call is awaited from 1..2 goroutines; one fault per scenario: none / Close from either side at a random step / abrupt close of the underlying stream / writer failing after k writes / cancelled Await context / a malformed frame that kills one reader while writes still work; yield hooks at 8 points between critical sections widen the windows. Monitors: M1 client boundary (a successful Await carries the call's own token; all Awaits of a call agree), M2 wire (a monitored Framer logs every message read/written: per direction at most one response per call id, every response answers a call that was read, ids echo exactly), M3 lifecycle (when Close returns: no handler of that connection is running, no incoming call is unanswered, every issued AsyncCall is ready, a later Call fails at once with ErrClientClosing), M4 process (invariant panics of the package, DATA RACE reports and deadlocks — goroutine-state monitor — end the worker and are attributed to the scenario). Non-trivial = scenario with >=6 calls; distinct by the hash of the order of yield points."
	p.Assume = []string{"schedules and fault sequences are sampled; the property's quantifier over every state of the connection state model is model checking and outside this technique", "an error outcome of a call is legitimate whenever a fault was injected or a side was closing"}
	p.Floor = map[string]int{"#evaluations": p.N / 2, "#nontrivial": p.N / 4, "calls": p.N * 6, "calls:ok": p.N * 2, "calls:error": p.N / 2, "mode:echo": p.N, "mode:async": p.N / 2, "mode:callback": p.N / 4, "mode:err": p.N / 2, "mode:slow": p.N / 2,
		"fault:none": p.N / 10, "fault:close-client": p.N / 12, "fault:close-server": p.N / 12, "fault:cut": p.N / 12, "fault:writefail": p.N / 12, "fault:ctx": p.N / 20, "fault:garbage": p.N / 12,
		"close-returned-checked": p.N / 2, "wire-messages": p.N * 10, "yield-points": p.N * 20, "distinct-orderings": p.N / 3, "double-await": p.N}
	return nil
}

func (p *c39) Case(i int) fw.Case { return fw.Case{Kind: "scenario"} }

// ---- transport with fault injection ----

type faultRWC struct {
	inner     io.ReadWriteCloser
	failAfter int64 // fail writes after this many (0 = never)
	writes    atomic.Int64
}

func (f *faultRWC) Read(p []byte) (int, error) { return f.inner.Read(p) }
func (f *faultRWC) Write(p []byte) (int, error) {
	if f.failAfter > 0 && f.writes.Add(1) > f.failAfter {
		f.inner.Close() // a transport whose writes fail is dead in both directions (like a broken socket)
		return 0, errors.New("injected write failure")
	}
	return f.inner.Write(p)
}
func (f *faultRWC) Close() error { return f.inner.Close() }

type pipeListener struct {
	done   chan struct{}
	dialed chan io.ReadWriteCloser
	wrap   func(side string, rwc io.ReadWriteCloser) io.ReadWriteCloser
	once   sync.Once
}

func (l *pipeListener) Accept(context.Context) (io.ReadWriteCloser, error) {
	select {
	case <-l.done:
		return nil, net.ErrClosed
	default:
	}
	select {
	case rwc := <-l.dialed:
		return rwc, nil
	case <-l.done:
		return nil, net.ErrClosed
	}
}
func (l *pipeListener) Close() error            { l.once.Do(func() { close(l.done) }); return nil }
func (l *pipeListener) Dialer() jsonrpc2.Dialer { return l }
func (l *pipeListener) Dial(ctx context.Context) (io.ReadWriteCloser, error) {
	c, s := net.Pipe()
	cw, sw := l.wrap("client", c), l.wrap("server", s)
	select {
	case l.dialed <- sw:
		return cw, nil
	case <-l.done:
		c.Close()
		s.Close()
		return nil, net.ErrClosed
	}
}

// ---- wire monitor (M2) ----

type wireEv struct {
	side string // who read/wrote
	op   string // read | write
	kind string // call | notif | resp
	id   string
}

type wireLog struct {
	mu  sync.Mutex
	evs []wireEv
}

func (w *wireLog) add(side, op string, msg jsonrpc2.Message) {
	ev := wireEv{side: side, op: op}
	switch m := msg.(type) {
	case *jsonrpc2.Request:
		if m.IsCall() {
			ev.kind, ev.id = "call", fmt.Sprintf("%T:%v", m.ID.Raw(), m.ID.Raw())
		} else {
			ev.kind = "notif"
		}
	case *jsonrpc2.Response:
		ev.kind, ev.id = "resp", fmt.Sprintf("%T:%v", m.ID.Raw(), m.ID.Raw())
	}
	w.mu.Lock()
	w.evs = append(w.evs, ev)
	w.mu.Unlock()
}

type monFramer struct {
	side string
	log  *wireLog
}
type monReader struct {
	inner jsonrpc2.Reader
	f     monFramer
}
type monWriter struct {
	inner jsonrpc2.Writer
	f     monFramer
}

func (f monFramer) Reader(rw io.Reader) jsonrpc2.Reader {
	return &monReader{jsonrpc2.HeaderFramer().Reader(rw), f}
}
func (f monFramer) Writer(rw io.Writer) jsonrpc2.Writer {
	return &monWriter{jsonrpc2.HeaderFramer().Writer(rw), f}
}
func (r *monReader) Read(ctx context.Context) (jsonrpc2.Message, int64, error) {
	m, n, err := r.inner.Read(ctx)
	if err == nil {
		r.f.log.add(r.f.side, "read", m)
	}
	return m, n, err
}
func (w *monWriter) Write(ctx context.Context, m jsonrpc2.Message) (int64, error) {
	n, err := w.inner.Write(ctx, m)
	if err == nil {
		w.f.log.add(w.f.side, "write", m)
	}
	return n, err
}

// ---- scenario state ----

type c39side struct {
	name       string
	conn       *jsonrpc2.Connection
	handlers   atomic.Int64 // handlers currently running
	unanswered atomic.Int64 // incoming calls accepted by the handler and not yet answered
	closing    atomic.Bool  // Close has been called on this side (or a fault cut the stream)
	mu         sync.Mutex
	calls      []*jsonrpc2.AsyncCall
}

type c39params struct {
	Tok  string `json:"tok"`
	Mode string `json:"mode"`
}
type c39result struct {
	Tok string `json:"tok"`
	Cb  string `json:"cb,omitempty"`
}

type c39scn struct {
	mu       sync.Mutex
	fails    []string
	internal []string
	wg       sync.WaitGroup // responders
	cover    map[string]int
	sides    map[string]*c39side
	faulted  atomic.Bool
}

func (s *c39scn) fail(site, format string, args ...any) {
	s.mu.Lock()
	s.fails = append(s.fails, site+"\x00"+fmt.Sprintf(format, args...))
	s.mu.Unlock()
}
func (s *c39scn) cov(k string) { s.mu.Lock(); s.cover[k]++; s.mu.Unlock() }

type c39handler struct {
	scn  *c39scn
	side *c39side
	peer func() *c39side
}

func (h *c39handler) Handle(ctx context.Context, req *jsonrpc2.Request) (any, error) {
	h.side.handlers.Add(1)
	defer h.side.handlers.Add(-1)
	var p c39params
	json.Unmarshal(req.Params, &p)
	if !req.IsCall() {
		h.scn.cov("notification-handled")
		return nil, nil
	}
	h.side.unanswered.Add(1)
	h.scn.cov("mode:" + p.Mode)
	switch p.Mode {
	case "slow":
		for i := 0; i < 3; i++ {
			runtime.Gosched()
		}
		h.side.unanswered.Add(-1)
		return c39result{Tok: p.Tok}, nil
	case "async":
		id := req.ID
		conn := h.side.conn
		h.scn.wg.Add(1)
		go func() {
			defer h.scn.wg.Done()
			runtime.Gosched()
			// the answer is accounted for before Respond: when Close returns nothing may be unanswered
			h.side.unanswered.Add(-1)
			conn.Respond(id, c39result{Tok: p.Tok}, nil)
		}()
		return nil, jsonrpc2.ErrAsyncResponse
	case "err":
		h.side.unanswered.Add(-1)
		return nil, jsonrpc2.NewError(4242, p.Tok)
	case "callback":
		var back c39result
		err := h.side.conn.Call(ctx, "m", c39params{Tok: p.Tok + "/cb", Mode: "echo"}).Await(ctx, &back)
		h.side.unanswered.Add(-1)
		if err != nil {
			return nil, jsonrpc2.NewError(4243, p.Tok)
		}
		if back.Tok != p.Tok+"/cb" {
			h.scn.fail("jsonrpc2:crossed-response:callback", "callback for %s received the answer %q", p.Tok, back.Tok)
		}
		return c39result{Tok: p.Tok, Cb: back.Tok}, nil
	default:
		h.side.unanswered.Add(-1)
		return c39result{Tok: p.Tok}, nil
	}
}

func (p *c39) Run(c fw.Case, r *fw.Rec) {
	rnd := p.rnd(c.Idx)
	y := newYielder(rnd.Fork())
	curYielder.Store(y)
	defer curYielder.Store(nil)

	scn := &c39scn{cover: map[string]int{}, sides: map[string]*c39side{}}
	wlog := &wireLog{}
	fault := fw.Pick(rnd, []string{"none", "none", "close-client", "close-server", "cut", "writefail", "ctx", "garbage"})
	r.Cover("fault:" + fault)
	if os.Getenv("VERIF_C39_DEBUG") != "" {
		fmt.Fprintf(os.Stderr, "C39 case %d fault=%s\n", c.Idx, fault)
	}
	failAfter := int64(0)
	if fault == "writefail" {
		failAfter = int64(rnd.Range(1, 6))
	}
	var rwcs sync.Map
	lst := &pipeListener{done: make(chan struct{}), dialed: make(chan io.ReadWriteCloser)}
	lst.wrap = func(side string, rwc io.ReadWriteCloser) io.ReadWriteCloser {
		f := &faultRWC{inner: rwc}
		if side == "client" {
			f.failAfter = failAfter
		}
		rwcs.Store(side, f)
		return f
	}
	client, server := &c39side{name: "client"}, &c39side{name: "server"}
	scn.sides["client"], scn.sides["server"] = client, server
	serverReady := make(chan struct{})
	binder := func(s *c39side, other *c39side, ready chan struct{}) jsonrpc2.Binder {
		return jsonrpc2.BinderFunc(func(ctx context.Context, conn *jsonrpc2.Connection) jsonrpc2.ConnectionOptions {
			s.conn = conn
			if ready != nil {
				close(ready)
			}
			return jsonrpc2.ConnectionOptions{
				Framer:  monFramer{s.name, wlog},
				Handler: &c39handler{scn: scn, side: s, peer: func() *c39side { return other }},
				OnInternalError: func(err error) {
					scn.mu.Lock()
					scn.internal = append(scn.internal, s.name+": "+err.Error())
					scn.mu.Unlock()
				},
			}
		})
	}
	ctx := context.Background()
	srv := jsonrpc2.NewServer(ctx, lst, binder(server, client, serverReady))
	cconn, err := jsonrpc2.Dial(ctx, lst.Dialer(), binder(client, server, nil), nil)
	if err != nil {
		r.Inconclusive("dial failed: " + err.Error())
		return
	}
	_ = cconn
	<-serverReady

	// callers
	type outcome struct {
		tok  string
		ok   bool
		got  string
		errs string
	}
	var omu sync.Mutex
	var outcomes []outcome
	ncalls := 0
	var callers sync.WaitGroup
	issued := atomic.Int64{}
	faultAt := int64(rnd.Range(1, 10))
	faultOnce := sync.Once{}
	faultDone := make(chan struct{})
	closeReturned := map[string]bool{}
	var crmu sync.Mutex
	doFault := func() {
		faultOnce.Do(func() {
			go func() {
				defer close(faultDone)
				switch fault {
				case "close-client", "close-server":
					s := client
					if fault == "close-server" {
						s = server
					}
					s.closing.Store(true)
					scn.faulted.Store(true)
					s.conn.Close()
					p.afterClose(scn, s, r)
					crmu.Lock()
					closeReturned[s.name] = true
					crmu.Unlock()
				case "garbage":
					// a malformed frame reaches one side's reader: that reader fails while both write directions still
					// work (handlers that are running may still call back, answer, and must not get stuck)
					scn.faulted.Store(true)
					client.closing.Store(true)
					server.closing.Store(true)
					if v, ok := rwcs.Load(fw.Pick(rnd, []string{"client", "server"})); ok {
						v.(*faultRWC).inner.Write([]byte("Content-Length: nonsense\r\n\r\n"))
					}
				case "cut":
					scn.faulted.Store(true)
					client.closing.Store(true)
					server.closing.Store(true)
					if v, ok := rwcs.Load(fw.Pick(rnd, []string{"client", "server"})); ok {
						v.(io.Closer).Close()
					}
				}
			}()
		})
	}
	if fault == "writefail" {
		scn.faulted.Store(true)
	}
	modes := []string{"echo", "echo", "slow", "async", "err", "callback"}
	for _, s := range []*c39side{client, server} {
		ng := rnd.Range(1, 2)
		for g := 0; g < ng; g++ {
			n := rnd.Range(2, 8)
			ncalls += n
			gr := rnd.Fork()
			callers.Add(1)
			go func(s *c39side, g, n int, gr *fw.Rand) {
				defer callers.Done()
				var pend sync.WaitGroup
				for k := 0; k < n; k++ {
					tok := fmt.Sprintf("%s-%d-%d", s.name, g, k)
					mode := fw.Pick(gr, modes)
					if mode == "callback" && s.name == "server" {
						// handlers of one connection run one at a time: if both ends called back into each other the
						// application itself would deadlock. Only the server's handler calls back (client -> server calls).
						mode = "echo"
					}
					if gr.Chance(1, 8) {
						s.conn.Notify(ctx, "note", c39params{Tok: tok, Mode: "note"})
						continue
					}
					ac := s.conn.Call(ctx, "m", c39params{Tok: tok, Mode: mode})
					s.mu.Lock()
					s.calls = append(s.calls, ac)
					s.mu.Unlock()
					if issued.Add(1) == faultAt {
						doFault()
					}
					double := gr.Bool()
					awaitCtx := ctx
					if fault == "ctx" && gr.Chance(1, 3) {
						cctx, cancel := context.WithCancel(ctx)
						cancel()
						awaitCtx = cctx
					}
					await := func() outcome {
						var res c39result
						err := ac.Await(awaitCtx, &res)
						if err != nil {
							return outcome{tok: tok, errs: err.Error()}
						}
						return outcome{tok: tok, ok: true, got: res.Tok}
					}
					wait := func() {
						o1 := await()
						if double {
							o2 := await()
							if awaitCtx == ctx && o1 != o2 {
								scn.fail("jsonrpc2:awaits-disagree", "two Awaits of call %s returned %+v and %+v", tok, o1, o2)
							}
							scn.cov("double-await")
						}
						if awaitCtx != ctx && !o1.ok {
							// cancelled Await: the call itself still completes; observe it with a live context
							var res c39result
							if err := ac.Await(ctx, &res); err == nil {
								o1 = outcome{tok: tok, ok: true, got: res.Tok}
							} else {
								o1 = outcome{tok: tok, errs: err.Error()}
							}
						}
						if o1.ok && o1.got != tok {
							scn.fail("jsonrpc2:crossed-response", "call %s (mode %s) was answered with the result of %q", tok, mode, o1.got)
						}
						if !o1.ok && mode != "err" && mode != "callback" && !scn.faulted.Load() && !strings.Contains(o1.errs, "closing") {
							scn.fail("jsonrpc2:call-failed-without-fault", "call %s (mode %s) failed with %q although no fault was injected", tok, mode, o1.errs)
						}
						if mode == "err" && o1.ok {
							scn.fail("jsonrpc2:error-lost", "call %s: the handler returned an error but Await succeeded", tok)
						}
						omu.Lock()
						outcomes = append(outcomes, o1)
						omu.Unlock()
					}
					if gr.Bool() {
						pend.Add(1)
						go func() { defer pend.Done(); wait() }()
					} else {
						wait()
					}
				}
				pend.Wait()
			}(s, g, n, gr)
		}
	}
	callers.Wait() // a call that never completes ends in the deadlock monitor
	doFault()
	<-faultDone
	// orderly shutdown of whatever is still open; Close must return
	for _, s := range []*c39side{client, server} {
		crmu.Lock()
		done := closeReturned[s.name]
		crmu.Unlock()
		if !done {
			s.closing.Store(true)
			s.conn.Close()
			p.afterClose(scn, s, r)
		}
	}
	srv.Shutdown()
	srv.Wait()
	scn.wg.Wait()
	nY, hY, points := y.stop()

	// ---- verdicts ----
	r.CoverN("calls", len(outcomes))
	for _, o := range outcomes {
		if o.ok {
			r.Cover("calls:ok")
		} else {
			r.Cover("calls:error")
		}
	}
	for k, v := range scn.cover {
		r.CoverN(k, v)
	}
	r.CoverN("yield-points", nY)
	for k, v := range points {
		r.CoverN("hook:"+k, v)
	}
	if _, seen := distinctOrderings.LoadOrStore(hY^0x39, true); !seen {
		r.Cover("distinct-orderings")
	}
	for _, e := range scn.internal {
		// Respond after the peer vanished is reported as "Request not found" only if the request was retired: not expected
		r.Fail("jsonrpc2:internal-error:"+c39Class(e), "internal error reported by the connection: %s (fault=%s)", e, fault)
	}
	for _, e := range scn.fails {
		i := strings.IndexByte(e, 0)
		r.Fail(e[:i], "%s (fault=%s)", e[i+1:], fault)
	}
	// M2: wire invariants
	r.CoverN("wire-messages", len(wlog.evs))
	for _, side := range []string{"client", "server"} {
		readCalls := map[string]bool{}
		wroteResp := map[string]int{}
		for _, ev := range wlog.evs {
			if ev.side != side {
				continue
			}
			switch {
			case ev.op == "read" && ev.kind == "call":
				readCalls[ev.id] = true
			case ev.op == "write" && ev.kind == "resp":
				wroteResp[ev.id]++
				if !readCalls[ev.id] {
					r.Fail("jsonrpc2:wire:response-without-call", "%s wrote a response for id %s without having read such a call", side, ev.id)
				}
				if wroteResp[ev.id] > 1 {
					r.Fail("jsonrpc2:wire:call-answered-twice", "%s wrote %d responses for call id %s", side, wroteResp[ev.id], ev.id)
				}
			}
		}
	}
	if r.Failed() {
		return
	}
	if len(outcomes) >= 6 {
		r.NonTrivial()
		r.DistinctKey(fmt.Sprintf("%x|%s|%d", hY, fault, len(outcomes)))
		okN := 0
		for _, o := range outcomes {
			if o.ok {
				okN++
			}
		}
		var pts []string
		for k, v := range points {
			pts = append(pts, fmt.Sprintf("%s=%d", k, v))
		}
		sort.Strings(pts)
		r.Sample(map[string]any{"fault": fault, "calls": len(outcomes), "ok": okN, "wire_messages": len(wlog.evs), "yield_points": pts})
	}
}

// afterClose checks M3 at the moment Close has returned on side s.
func (p *c39) afterClose(scn *c39scn, s *c39side, r *fw.Rec) {
	scn.cov("close-returned-checked")
	if n := s.handlers.Load(); n != 0 {
		scn.fail("jsonrpc2:close-returned-while-handler-running", "%s: Close returned while %d handler(s) were still running", s.name, n)
	}
	if n := s.unanswered.Load(); n != 0 {
		scn.fail("jsonrpc2:close-returned-with-unanswered-call", "%s: Close returned while %d incoming call(s) were unanswered", s.name, n)
	}
	s.mu.Lock()
	calls := append([]*jsonrpc2.AsyncCall(nil), s.calls...)
	s.mu.Unlock()
	for _, ac := range calls {
		if !ac.IsReady() {
			scn.fail("jsonrpc2:close-returned-with-pending-outgoing-call", "%s: Close returned but outgoing call %v is not ready", s.name, ac.ID().Raw())
		}
	}
	ac := s.conn.Call(context.Background(), "m", c39params{Tok: "late", Mode: "echo"})
	if !ac.IsReady() {
		scn.fail("jsonrpc2:call-after-close-not-failed-fast", "%s: a Call issued after Close returned is not ready at once", s.name)
		return
	}
	if err := ac.Await(context.Background(), nil); !errors.Is(err, jsonrpc2.ErrClientClosing) {
		scn.fail("jsonrpc2:call-after-close-wrong-error", "%s: a Call after Close returned %v, want ErrClientClosing", s.name, err)
	}
}

func c39Class(e string) string {
	for _, k := range []string{"Request not found", "non-nil result with a non-nil error", "unexpected message", "malformed result", "ErrAsyncResponse"} {
		if strings.Contains(e, k) {
			return strings.ReplaceAll(k, " ", "-")
		}
	}
	return "other"
}
