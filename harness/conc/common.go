// Package conc holds the monitors of the concurrent packages (x/jsonrpc2, x/watcher, x/fakenet).
package conc

import (
	"hash/fnv"
	"os"
	"runtime"
	"sync"
	"sync/atomic"
	"time"

	"github.com/goplus/xgo/x/fakenet"
	"github.com/goplus/xgo/x/jsonrpc2"
	"github.com/goplus/xgo/x/watcher"

	"verif/fw"
)

// Base mirrors checks.Base (kept separate so that the race binary does not link the compiler packages).
type Base struct {
	Id     string
	Lvl    string
	RuleS  string
	Assume []string
	Env    *fw.Env
	N      int
	Floor  map[string]int
}

func (b *Base) ID() string             { return b.Id }
func (b *Base) Level() string          { return b.Lvl }
func (b *Base) Rule() string           { return b.RuleS }
func (b *Base) Assumptions() []string  { return b.Assume }
func (b *Base) NumCases() int          { return b.N }
func (b *Base) Floors() map[string]int { return b.Floor }
func (b *Base) rnd(i int) *fw.Rand     { return b.Env.Rand(b.Id, i) }

// yielder drives the yield hooks of one scenario: PRNG-chosen no-op / Gosched / short sleep, and records the
// order in which yield points were passed (evidence: distinct event orderings).
type yielder struct {
	mu     sync.Mutex
	r      *fw.Rand
	n      int
	h      uint64
	points map[string]int
	off    bool
}

func newYielder(r *fw.Rand) *yielder {
	return &yielder{r: r, points: map[string]int{}, h: 1469598103934665603}
}

func (y *yielder) yield(point string) {
	y.mu.Lock()
	if y.off {
		y.mu.Unlock()
		return
	}
	k := y.r.Intn(100)
	y.n++
	y.points[point]++
	hh := fnv.New64a()
	hh.Write([]byte(point))
	y.h = (y.h ^ hh.Sum64()) * 1099511628211
	y.mu.Unlock()
	switch {
	case k < 55:
	case k < 85:
		runtime.Gosched()
	default:
		time.Sleep(time.Duration(5+k) * time.Microsecond)
	}
}

func (y *yielder) stop() (n int, h uint64, points map[string]int) {
	y.mu.Lock()
	defer y.mu.Unlock()
	y.off = true
	return y.n, y.h, y.points
}

var curYielder atomic.Pointer[yielder]

var installOnce sync.Once

// installHooks sets the packages' hook variables once, before any goroutine of those packages exists.
func installHooks() {
	installOnce.Do(func() {
		f := func(point string) {
			if y := curYielder.Load(); y != nil {
				y.yield(point)
			}
		}
		jsonrpc2.VerifYield = f
		watcher.VerifYield = f
		fakenet.VerifYield = f
		if os.Getenv("VERIF_WORKER") != "" {
			fw.StartDeadlockMonitor()
		}
	})
}

// clock is the single monotonic source of call/return stamps of a history.
type clock struct{ t atomic.Int64 }

func (c *clock) tick() int64 { return c.t.Add(1) }
