package conc

import (
	"encoding/binary"
	"fmt"
	"hash/crc32"
	"io"
	"net"
	"os"
	"sync"

	"github.com/goplus/xgo/x/fakenet"

	"verif/fw"
)

// C41 — closing a fake connection unblocks pending I/O; data arrives in order and unmodified.
type c41 struct{ Base }

func init() { fw.Register(&c41{Base: Base{Id: "C41", Lvl: "exploration"}}) }

func (p *c41) Setup(env *fw.Env) error {
	p.Env = env
	installHooks()
	p.N = env.Pick(3000, 150000)
	p.RuleS = "random runs on a pair of fakenet connections joined by io.Pipe / os.Pipe / net.Pipe: 1..3 writer goroutines per direction send frames (writer id, sequence number, length, payload, CRC), one reader per direction reads with random buffer sizes 1..64, a closer calls Close (sometimes twice, sometimes on both ends) at a random step or after a clean drain; yield hooks between the two selects of the feeder and around the source call. Oracle: (1) the received byte stream parses into intact frames whose sequence numbers per writer are 0,1,2,… without gap, duplicate or reordering, followed by at most one partial frame and only if a Close happened; after a clean drain every successfully written frame was received; (2) every Read/Write started after Close has returned yields (0, io.EOF); (3) every call pending at Close returns (a stuck call is a deadlock by the worker's goroutine-state monitor) and, if it reports an error, reports io.EOF — a Read on the closing side is kept pending in every run. The harness never touches a buffer again after its call returned EOF-on-close. Built with -race. Non-trivial = run with >=2 writers and >=20 frames."
	p.Assume = []string{"one reader per direction (several readers make the byte stream order unobservable)", "a feeder goroutine may still own the buffer of a call that returned EOF on close (inherent in the design, outside the statement)"}
	p.Floor = map[string]int{"#evaluations": p.N / 2, "#nontrivial": p.N / 8, "frames-received": p.N * 5, "close:mid-stream": p.N / 8, "close:clean": p.N / 8, "post-close-calls": p.N, "pending-at-close-returned": 200, "pipe:io": 300, "pipe:os": 300, "pipe:net": 300, "yield-points": p.N * 5, "distinct-orderings": p.N / 4}
	return nil
}

func (p *c41) Case(i int) fw.Case { return fw.Case{Kind: "run"} }

func c41Frame(w, seq int, payload []byte) []byte {
	b := make([]byte, 8+len(payload)+4)
	b[0] = 0xF7
	b[1] = byte(w)
	binary.BigEndian.PutUint32(b[2:], uint32(seq))
	binary.BigEndian.PutUint16(b[6:], uint16(len(payload)))
	copy(b[8:], payload)
	binary.BigEndian.PutUint32(b[8+len(payload):], crc32.ChecksumIEEE(b[:8+len(payload)]))
	return b
}

// c41Parse checks a received stream; returns frames per writer, whether a partial tail exists, or an error text.
func c41Parse(stream []byte) (perWriter map[int]int, partial bool, err string) {
	perWriter = map[int]int{}
	for len(stream) > 0 {
		if stream[0] != 0xF7 {
			return perWriter, false, fmt.Sprintf("stream corrupted: frame does not start with the magic byte (got %#x)", stream[0])
		}
		if len(stream) < 8 {
			return perWriter, true, ""
		}
		w, seq, n := int(stream[1]), int(binary.BigEndian.Uint32(stream[2:])), int(binary.BigEndian.Uint16(stream[6:]))
		if len(stream) < 8+n+4 {
			return perWriter, true, ""
		}
		if crc32.ChecksumIEEE(stream[:8+n]) != binary.BigEndian.Uint32(stream[8+n:]) {
			return perWriter, false, fmt.Sprintf("frame (writer %d, seq %d) fails its checksum: data modified or interleaved", w, seq)
		}
		for k := 0; k < n; k++ {
			if stream[8+k] != byte(w*31+seq+k) {
				return perWriter, false, fmt.Sprintf("payload of frame (writer %d, seq %d) modified at byte %d", w, seq, k)
			}
		}
		if seq != perWriter[w] {
			return perWriter, false, fmt.Sprintf("writer %d: frame seq %d received when %d was expected (lost, duplicated or reordered)", w, seq, perWriter[w])
		}
		perWriter[w]++
		stream = stream[8+n+4:]
	}
	return perWriter, false, ""
}

type c41pipe struct {
	r io.ReadCloser
	w io.WriteCloser
}

func c41Pipes(kind int) (aIn io.ReadCloser, aOut io.WriteCloser, bIn io.ReadCloser, bOut io.WriteCloser, name string) {
	switch kind {
	case 0:
		r1, w1 := io.Pipe() // a -> b
		r2, w2 := io.Pipe() // b -> a
		return r2, w1, r1, w2, "io"
	case 1:
		r1, w1, _ := os.Pipe()
		r2, w2, _ := os.Pipe()
		return r2, w1, r1, w2, "os"
	default:
		x, y := net.Pipe()
		return x, x, y, y, "net"
	}
}

func (p *c41) Run(c fw.Case, r *fw.Rec) {
	rnd := p.rnd(c.Idx)
	y := newYielder(rnd.Fork())
	curYielder.Store(y)
	defer curYielder.Store(nil)
	aIn, aOut, bIn, bOut, pname := c41Pipes(rnd.Intn(3))
	r.Cover("pipe:" + pname)
	A := fakenet.NewConn("a", aIn, aOut)
	B := fakenet.NewConn("b", bIn, bOut)
	nw := rnd.Range(1, 3)
	frames := rnd.Range(3, 30)
	clean := rnd.Chance(1, 3)
	closeAfter := rnd.Range(0, nw*frames) // number of completed writes after which the closer fires (mid-stream)
	closeBoth := rnd.Bool()
	closeTwice := rnd.Chance(1, 3)

	var mu sync.Mutex
	completed := 0
	okWrites := map[int]int{} // writer -> number of writes that returned (len, nil)
	closeCh := make(chan struct{})
	var closeOnce sync.Once
	var errs []string
	fail := func(site, msg string) {
		mu.Lock()
		errs = append(errs, site+"\x00"+msg)
		mu.Unlock()
	}
	closed := make(chan struct{}) // closed once A.Close() has returned
	var ww, rw sync.WaitGroup
	wr := make([]*fw.Rand, nw)
	for i := range wr {
		wr[i] = rnd.Fork()
	}
	for w := 0; w < nw; w++ {
		ww.Add(1)
		go func(w int) {
			defer ww.Done()
			pr := wr[w]
			for seq := 0; seq < frames; seq++ {
				n := pr.Intn(40)
				payload := make([]byte, n)
				for k := range payload {
					payload[k] = byte(w*31 + seq + k)
				}
				buf := c41Frame(w, seq, payload)
				wasClosed := false
				select {
				case <-closed:
					wasClosed = true
				default:
				}
				nn, err := A.Write(buf)
				if wasClosed && !(nn == 0 && err == io.EOF) {
					fail("fakenet:write-after-close-not-EOF", fmt.Sprintf("Write started after Close returned gave (%d, %v), want (0, EOF)", nn, err))
				}
				if err != nil {
					// the only reason a Write on A can fail is A's Close: pending or later, it must report EOF
					if err != io.EOF {
						fail("fakenet:pending-write-at-close-not-EOF", fmt.Sprintf("a Write that was pending when Close ran returned (%d, %v), want an end-of-file error", nn, err))
					}
					return // buffer may still be owned by the feeder: never touched again
				}
				if nn != len(buf) {
					fail("fakenet:short-write-without-error", fmt.Sprintf("Write returned (%d, nil) for %d bytes", nn, len(buf)))
					return
				}
				mu.Lock()
				okWrites[w]++
				completed++
				fire := !clean && completed >= closeAfter
				mu.Unlock()
				if fire {
					closeOnce.Do(func() { close(closeCh) })
				}
			}
		}(w)
	}
	var stream []byte
	readerSawEOF := false
	rw.Add(1)
	rr := rnd.Fork()
	go func() {
		defer rw.Done()
		for {
			buf := make([]byte, rr.Range(1, 64))
			n, err := B.Read(buf)
			if n > 0 {
				stream = append(stream, buf[:n]...)
			}
			if err != nil {
				readerSawEOF = true
				return
			}
		}
	}()
	// a Read on A that is pending when A is closed (nothing is ever written towards A)
	pendingRead := make(chan struct{})
	go func() {
		defer close(pendingRead)
		n, err := A.Read(make([]byte, 8))
		if !(n == 0 && err == io.EOF) {
			fail("fakenet:pending-read-at-close-not-EOF", fmt.Sprintf("a Read that was pending when Close ran returned (%d, %v), want (0, EOF)", n, err))
		}
	}()
	if clean {
		ww.Wait()
		closeOnce.Do(func() { close(closeCh) })
	}
	<-closeCh
	A.Close()
	close(closed)
	if closeTwice {
		A.Close()
	}
	// calls started after Close returned
	for k := 0; k < 2; k++ {
		n, err := A.Write([]byte{1, 2, 3})
		if !(n == 0 && err == io.EOF) {
			fail("fakenet:write-after-close-not-EOF", fmt.Sprintf("Write started after Close returned gave (%d, %v), want (0, EOF)", n, err))
		}
		n, err = A.Read(make([]byte, 4))
		if !(n == 0 && err == io.EOF) {
			fail("fakenet:read-after-close-not-EOF", fmt.Sprintf("Read started after Close returned gave (%d, %v), want (0, EOF)", n, err))
		}
		r.Cover("post-close-calls")
	}
	ww.Wait()     // pending writes must return
	<-pendingRead // the pending read too (a stuck call is a deadlock for the goroutine-state monitor)
	r.Cover("pending-read-at-close-returned")
	if closeBoth || pname != "net" {
		// the reader ends when the pipe reports EOF (A closed its write side); closing B too must also be safe
		if closeBoth {
			B.Close()
		}
	}
	if pname == "os" && !closeBoth {
		// os.Pipe: A.Close closed the write end, the reader sees EOF
	}
	rw.Wait() // a stuck Read is a deadlock (goroutine-state monitor)
	B.Close()
	nY, hY, points := y.stop()
	r.CoverN("yield-points", nY)
	for k, v := range points {
		r.CoverN("hook:"+k, v)
	}
	if _, seen := distinctOrderings.LoadOrStore(hY^0x41, true); !seen {
		r.Cover("distinct-orderings")
	}
	if clean {
		r.Cover("close:clean")
	} else {
		r.Cover("close:mid-stream")
		r.Cover("pending-at-close-returned")
	}
	for _, e := range errs {
		i := 0
		for e[i] != 0 {
			i++
		}
		r.Fail(e[:i], "%s (pipe=%s writers=%d frames=%d clean=%v closeBoth=%v)", e[i+1:], pname, nw, frames, clean, closeBoth)
	}
	if r.Failed() {
		return
	}
	got, partial, perr := c41Parse(stream)
	if perr != "" {
		r.Fail("fakenet:stream-corrupted", "%s (pipe=%s writers=%d)", perr, pname, nw)
		return
	}
	total := 0
	for _, n := range got {
		total += n
	}
	r.CoverN("frames-received", total)
	if partial && clean && !closeBoth { // (closing the reading end too may drop data its feeder already holds: inherent, outside the statement)
		r.Fail("fakenet:partial-frame-after-clean-drain", "stream ends with a partial frame although all writers finished before Close")
		return
	}
	if clean && !closeBoth && readerSawEOF {
		for w, n := range okWrites {
			if got[w] != n {
				r.Fail("fakenet:written-data-not-received", "writer %d completed %d writes before Close, the reader (drained to EOF) received %d frames", w, n, got[w])
				return
			}
		}
	}
	for w, n := range got {
		if n > okWrites[w]+1 {
			r.Fail("fakenet:received-more-than-written", "writer %d: %d frames received, only %d writes completed", w, n, okWrites[w])
			return
		}
	}
	if nw >= 2 && total >= 20 {
		r.NonTrivial()
		r.DistinctKey(fmt.Sprintf("%x|%d", hY, len(stream)))
		r.Sample(map[string]any{"pipe": pname, "writers": nw, "frames_per_writer": frames, "clean_drain": clean, "received_frames": total, "bytes": len(stream), "yield_points": nY})
	}
}
