package conc

import (
	"fmt"
	"sort"
	"strings"
	"sync"
	"time"

	"github.com/anishathalye/porcupine"
	"github.com/goplus/xgo/x/watcher"

	"verif/fw"
)

// C40 — watch mode never loses or duplicates a changed directory (linearizability against a set model).
type c40 struct{ Base }

func init() { fw.Register(&c40{Base: Base{Id: "C40", Lvl: "exploration"}}) }

func (p *c40) Setup(env *fw.Env) error {
	p.Env = env
	installHooks()
	p.N = env.Pick(3000, 150000)
	p.RuleS = "random histories: 1..4 producers call FileChanged on 2..5 directories (few keys force collisions), 1..3 consumers call Fetch; every call and return is stamped from one atomic counter at the client boundary; yield hooks between Unlock and Broadcast and at Fetch entry widen the windows; after the producers finish one STOP directory per consumer is reported so that every Fetch returns; at quiescence the pending set is read through a hook and appended as final fetches, plus one final must-be-empty operation per directory. Oracle: porcupine, partitioned by directory, against the sequential flag model (report sets the flag; fetch of d requires it set and clears it; final requires it clear). A lost wake-up leaves goroutines blocked forever: the worker uses no timers of its own, so the Go runtime's all-goroutines-asleep detector ends it (logical verdict). Built with -race. Non-trivial = history with >=2 producers or consumers and >=10 operations; distinct by the recorded history."
	p.Assume = []string{"checker timeout (10 s per history) is inconclusive, not a violation", "a set of flags is linearizable iff each flag is (partition by directory)"}
	p.Floor = map[string]int{"#evaluations": p.N / 2, "#nontrivial": p.N / 4, "ops": p.N * 10, "fetch-blocked-then-woken": 100, "re-report-before-fetch": 500, "yield-points": p.N * 5, "distinct-orderings": p.N / 4, "porcupine:ok": p.N / 2}
	return nil
}

func (p *c40) Case(i int) fw.Case { return fw.Case{Kind: "history"} }

type c40in struct {
	Kind string // report fetch final
	Dir  string
}

var c40Model = porcupine.Model{
	Partition: func(history []porcupine.Operation) [][]porcupine.Operation {
		m := map[string][]porcupine.Operation{}
		var keys []string
		for _, op := range history {
			d := op.Input.(c40in).Dir
			if _, ok := m[d]; !ok {
				keys = append(keys, d)
			}
			m[d] = append(m[d], op)
		}
		sort.Strings(keys)
		out := make([][]porcupine.Operation, 0, len(keys))
		for _, k := range keys {
			out = append(out, m[k])
		}
		return out
	},
	Init: func() any { return false },
	Step: func(state, input, output any) (bool, any) {
		in := input.(c40in)
		set := state.(bool)
		switch in.Kind {
		case "report":
			return true, true
		case "fetch":
			return set, false
		default: // final: must be empty
			return !set, set
		}
	},
	DescribeOperation: func(input, output any) string {
		in := input.(c40in)
		return in.Kind + "(" + in.Dir + ")"
	},
}

var distinctOrderings sync.Map

func (p *c40) Run(c fw.Case, r *fw.Rec) {
	rnd := p.rnd(c.Idx)
	y := newYielder(rnd.Fork())
	curYielder.Store(y)
	defer curYielder.Store(nil)
	nprod, ncons, ndir := rnd.Range(1, 4), rnd.Range(1, 3), rnd.Range(2, 5)
	perProd := rnd.Range(3, 25)
	ch := watcher.NewChanges("/verif-c40")
	var clk clock
	var mu sync.Mutex
	var ops []porcupine.Operation
	rec := func(client int, in c40in, call, ret int64) {
		mu.Lock()
		ops = append(ops, porcupine.Operation{ClientId: client, Input: in, Call: call, Output: in.Dir, Return: ret})
		mu.Unlock()
	}
	var pw, cw sync.WaitGroup
	seeds := make([]*fw.Rand, nprod)
	for i := range seeds {
		seeds[i] = rnd.Fork()
	}
	for i := 0; i < nprod; i++ {
		pw.Add(1)
		go func(i int) {
			defer pw.Done()
			pr := seeds[i]
			for k := 0; k < perProd; k++ {
				d := fmt.Sprintf("d%d", pr.Intn(ndir))
				t0 := clk.tick()
				ch.FileChanged(d + "/f.go")
				rec(i, c40in{"report", d}, t0, clk.tick())
			}
		}(i)
	}
	for i := 0; i < ncons; i++ {
		cw.Add(1)
		go func(i int) {
			defer cw.Done()
			for {
				t0 := clk.tick()
				d := ch.Fetch(false)
				rec(10+i, c40in{"fetch", d}, t0, clk.tick())
				if strings.HasPrefix(d, "STOP") {
					return
				}
			}
		}(i)
	}
	pw.Wait()
	for i := 0; i < ncons; i++ {
		d := fmt.Sprintf("STOP%d", i)
		t0 := clk.tick()
		ch.FileChanged(d + "/f.go")
		rec(20, c40in{"report", d}, t0, clk.tick())
	}
	cw.Wait() // a lost wake-up ends here in the runtime's deadlock detector
	nY, hY, points := y.stop()
	// quiescent point: what is still pending counts as fetched by a final client
	pend := ch.VerifPending()
	sort.Strings(pend)
	for _, d := range pend {
		t0 := clk.tick()
		rec(30, c40in{"fetch", d}, t0, clk.tick())
	}
	dirs := map[string]bool{}
	for _, op := range ops {
		dirs[op.Input.(c40in).Dir] = true
	}
	for d := range dirs {
		t0 := clk.tick()
		rec(31, c40in{"final", d}, t0, clk.tick())
	}
	r.CoverN("ops", len(ops))
	r.CoverN("yield-points", nY)
	for k, v := range points {
		r.CoverN("hook:"+k, v)
	}
	if _, seen := distinctOrderings.LoadOrStore(hY, true); !seen {
		r.Cover("distinct-orderings")
	}
	// evidence of interesting interleavings
	sort.Slice(ops, func(i, j int) bool { return ops[i].Call < ops[j].Call })
	lastReportRet := map[string]int64{}
	pendingReport := map[string]bool{}
	for _, op := range ops {
		in := op.Input.(c40in)
		switch in.Kind {
		case "report":
			if pendingReport[in.Dir] {
				r.Cover("re-report-before-fetch")
			}
			pendingReport[in.Dir] = true
			lastReportRet[in.Dir] = op.Return
		case "fetch":
			pendingReport[in.Dir] = false
		}
	}
	for _, op := range ops {
		in := op.Input.(c40in)
		if in.Kind == "fetch" && op.ClientId < 30 {
			// a fetch that was called before the report that satisfied it returned must have waited
			if op.Return > op.Call+1 {
				r.Cover("fetch-blocked-then-woken")
			}
		}
	}
	res, info := porcupine.CheckOperationsVerbose(c40Model, ops, 10*time.Second)
	switch res {
	case porcupine.Ok:
		r.Cover("porcupine:ok")
	case porcupine.Unknown:
		r.Inconclusive("C40 porcupine timed out on a history of " + fmt.Sprint(len(ops)) + " operations")
		return
	default:
		_ = info
		r.Fail("watcher:history-not-linearizable:"+c40Why(ops), "the recorded history is not linearizable against the set-of-flags model (producers=%d consumers=%d dirs=%d)\n%s", nprod, ncons, ndir, c40Render(ops))
		return
	}
	if nprod+ncons >= 3 && len(ops) >= 10 {
		r.NonTrivial()
		r.DistinctKey(c40Render(ops))
		if len(ops) <= 16 {
			r.Sample(strings.Split(c40Render(ops), "\n"))
		}
	}
}

func c40Render(ops []porcupine.Operation) string {
	var b strings.Builder
	for _, op := range ops {
		in := op.Input.(c40in)
		fmt.Fprintf(&b, "client %2d  %-6s %-6s call=%d return=%d\n", op.ClientId, in.Kind, in.Dir, op.Call, op.Return)
	}
	return b.String()
}

// c40Why classifies a non-linearizable history by simple counting per directory.
func c40Why(ops []porcupine.Operation) string {
	rep, fet := map[string]int{}, map[string]int{}
	for _, op := range ops {
		in := op.Input.(c40in)
		switch in.Kind {
		case "report":
			rep[in.Dir]++
		case "fetch":
			fet[in.Dir]++
		}
	}
	for d, n := range fet {
		if rep[d] == 0 {
			return "fetched-never-reported"
		}
		if n > rep[d] {
			return "fetched-more-often-than-reported"
		}
	}
	for d := range rep {
		if fet[d] == 0 {
			return "reported-never-fetched"
		}
	}
	return "order"
}
