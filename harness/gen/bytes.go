package gen

import (
	"strings"

	"verif/fw"
)

var soupPieces = []string{"\x00", "\xff", "\xfe", "\xef\xbb\xbf", "\xc0\x80", "\xed\xa0\x80", "é", "世", "\U0001F600", " ", "\r", "\n", "\t", " ",
	"\"", "'", "`", "\\", "/", "*", "#", "$", "{", "}", "(", ")", "[", "]", "<", "-", ">", "=", "!", "?", ":", ".", ",", ";", "~", "@", "0", "1", "x", "e", "r", "_", "a", "py\"", "c\""}

// RandBytes draws a hostile byte string of length <= maxLen.
func RandBytes(r *fw.Rand, maxLen int) []byte {
	n := r.Intn(maxLen + 1)
	switch r.Intn(3) {
	case 0: // uniform bytes
		b := make([]byte, n)
		for i := range b {
			b[i] = byte(r.U64())
		}
		return b
	case 1: // printable ascii heavy
		b := make([]byte, n)
		for i := range b {
			if r.Chance(1, 10) {
				b[i] = byte(r.U64())
			} else {
				b[i] = byte(32 + r.Intn(95))
			}
		}
		return b
	default: // soup
		var sb strings.Builder
		for sb.Len() < n {
			sb.WriteString(fw.Pick(r, soupPieces))
		}
		return []byte(sb.String())
	}
}

// Mutate applies 1..k byte-level mutations (flip, insert, delete, duplicate, splice, truncate).
func Mutate(r *fw.Rand, src []byte, other []byte, k int) []byte {
	b := append([]byte(nil), src...)
	n := r.Range(1, k)
	for i := 0; i < n; i++ {
		if len(b) == 0 {
			b = append(b, fw.Pick(r, soupPieces)...)
			continue
		}
		p := r.Intn(len(b))
		switch r.Intn(8) {
		case 0:
			b[p] ^= 1 << uint(r.Intn(8))
		case 1:
			ins := fw.Pick(r, soupPieces)
			b = append(b[:p], append([]byte(ins), b[p:]...)...)
		case 2:
			e := p + r.Range(1, 4)
			if e > len(b) {
				e = len(b)
			}
			b = append(b[:p], b[e:]...)
		case 3:
			e := p + r.Range(1, 12)
			if e > len(b) {
				e = len(b)
			}
			seg := append([]byte(nil), b[p:e]...)
			b = append(b[:e], append(seg, b[e:]...)...)
		case 4:
			if len(other) > 0 {
				q := r.Intn(len(other))
				e := q + r.Range(1, 40)
				if e > len(other) {
					e = len(other)
				}
				b = append(b[:p], append(append([]byte(nil), other[q:e]...), b[p:]...)...)
			}
		case 5:
			b = b[:p]
		case 6:
			b[p] = byte(r.U64())
		case 7:
			// swap two bytes
			q := r.Intn(len(b))
			b[p], b[q] = b[q], b[p]
		}
	}
	return b
}

// Window cuts a window of at most max bytes at a random position (aligned to line starts when possible).
func Window(r *fw.Rand, src []byte, max int) []byte {
	if len(src) <= max {
		return src
	}
	p := r.Intn(len(src) - max)
	for p > 0 && src[p-1] != '\n' && r.Chance(3, 4) {
		p--
		if p < 0 {
			p = 0
		}
	}
	e := p + max
	if e > len(src) {
		e = len(src)
	}
	return src[p:e]
}

// Nest returns deep nesting inputs.
func Nest(kind int, n int) string {
	switch kind % 8 {
	case 0:
		return "x := " + strings.Repeat("(", n) + "1" + strings.Repeat(")", n)
	case 1:
		return "x := " + strings.Repeat("[", n)
	case 2:
		return "func f() " + strings.Repeat("{", n)
	case 3:
		return "x := " + strings.Repeat("-", n) + "1"
	case 4:
		return "x := a" + strings.Repeat(".b", n)
	case 5:
		return "var x " + strings.Repeat("[]", n) + "int"
	case 6:
		return "x := " + strings.Repeat("func(){", n)
	default:
		return "x := " + strings.Repeat("f(", n)
	}
}
