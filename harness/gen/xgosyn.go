package gen

import (
	"fmt"
	"strings"

	"verif/fw"
)

// XSyn generates syntactically valid (not necessarily well-typed) XGo source
// text covering the Go and XGo node kinds. Callers validate by parsing.
type XSyn struct {
	R      *fw.Rand
	GoOnly bool // restrict to Go syntax
	ind    int
}

var synIdents = []string{"a", "b", "c", "x", "y", "n", "s", "m", "arr", "f", "g", "foo", "bar", "err", "ok", "T", "p", "ch"}
var synTypes = []string{"int", "string", "bool", "float64", "[]int", "map[string]int", "*T", "T", "[]string", "func(int) int", "chan int", "interface{}", "[3]int", "struct{ a int }", "error", "any", "[]*T", "map[string][]int", "<-chan int", "chan<- string", "<-chan<- chan int", "chan<- chan int", "<-chan (<-chan int)", "chan (<-chan int)", "chan<- <-chan int", "<-chan chan<- *T", "func()", "func(a, b int) (int, error)"}
var synBinOps = []string{"+", "-", "*", "/", "%", "&", "|", "^", "<<", ">>", "&^", "&&", "||", "==", "!=", "<", "<=", ">", ">="}
var synUnOps = []string{"-", "+", "!", "^", "&", "<-", "*"}

func (g *XSyn) id() string  { return fw.Pick(g.R, synIdents) }
func (g *XSyn) typ() string { return fw.Pick(g.R, synTypes) }

func (g *XSyn) lit() string {
	r := g.R
	if g.GoOnly {
		return fw.Pick(r, []string{"0", "1", "42", "0x1F", "1_000", "3.14", "1e3", "2i", "'a'", "'\\n'", `"s"`, `"a\tb"`, "`raw`", `""`, "0b101", "0o17", ".5"})
	}
	return fw.Pick(r, []string{"0", "1", "42", "0x1F", "1_000", "3.14", "1e3", "2i", "'a'", "'\\n'", `"s"`, `"a\tb"`, "`raw`", `""`, "1r", "3.5r", `"${x}"`, `"a${x+1}b$$"`, `"$x"`, "10ms", "1h", `c"cs"`, "0b101", "2**3"})
}

// Expr draws an expression. depth bounds recursion.
func (g *XSyn) Expr(depth int) string {
	r := g.R
	if depth <= 0 || r.Chance(1, 4) {
		if r.Chance(1, 3) {
			return g.lit()
		}
		return g.id()
	}
	d := depth - 1
	n := 22
	if !g.GoOnly {
		n = 38
	}
	switch r.Intn(n) {
	case 0, 1, 2:
		return g.Expr(d) + " " + fw.Pick(r, synBinOps) + " " + g.Expr(d)
	case 3:
		op := fw.Pick(r, synUnOps)
		x := g.Expr(d)
		if strings.HasPrefix(x, op) || (op == "-" && strings.HasPrefix(x, "-")) || (op == "+" && strings.HasPrefix(x, "+")) || (op == "&" && strings.HasPrefix(x, "&")) || (op == "<-" && strings.HasPrefix(x, "-")) {
			return op + "(" + x + ")"
		}
		return op + g.primary(x)
	case 4:
		return "(" + g.Expr(d) + ")"
	case 5:
		return g.primary(g.Expr(d)) + "." + g.id()
	case 6:
		return g.primary(g.Expr(d)) + "[" + g.Expr(d) + "]"
	case 7:
		lo, hi := g.Expr(d), g.Expr(d)
		switch r.Intn(5) {
		case 0:
			return g.primary(g.Expr(d)) + "[:]"
		case 1:
			return g.primary(g.Expr(d)) + "[" + lo + ":]"
		case 2:
			return g.primary(g.Expr(d)) + "[:" + hi + "]"
		case 3:
			return g.primary(g.Expr(d)) + "[" + lo + ":" + hi + ":" + g.Expr(d) + "]"
		}
		return g.primary(g.Expr(d)) + "[" + lo + ":" + hi + "]"
	case 8:
		return g.primary(g.Expr(d)) + ".(" + g.typ() + ")"
	case 9, 10, 11:
		return g.call(d)
	case 12:
		return fw.Pick(r, []string{"[]int", "[]string", "[...]int", "[2]int"}) + "{" + g.exprList(d, 0, 3) + "}"
	case 13:
		return "map[string]int{" + g.kvList(d) + "}"
	case 14:
		return fw.Pick(r, []string{"T", "&T", "pkg.T"}) + "{" + fw.Pick(r, []string{"", "a: " + g.Expr(d), g.Expr(d) + ", " + g.Expr(d), "a: " + g.Expr(d) + ", b: " + g.Expr(d)}) + "}"
	case 15:
		return "func(" + g.params() + ") " + fw.Pick(r, []string{"", "int ", "(int, error) ", "(r int) "}) + g.Block(d)
	case 16:
		t := g.typ()
		if strings.HasPrefix(t, "func") || strings.Contains(t, "chan") || strings.HasPrefix(t, "*") {
			t = "(" + t + ")" // conversions to such types need parentheses (as gofmt prints them)
		}
		return t + "(" + g.Expr(d) + ")"
	case 17:
		return "[]" + fw.Pick(r, []string{"int", "T"}) + "{" + fw.Pick(r, []string{"0: " + g.Expr(d), "{}", g.Expr(d)}) + "}"
	case 18:
		return "struct{ a int }{" + g.Expr(d) + "}"
	case 19:
		return "new(" + g.typ() + ")"
	case 20:
		return "make(" + fw.Pick(r, []string{"[]int", "map[string]int", "chan int", "<-chan<- chan int", "chan<- <-chan int"}) + ", " + g.Expr(d) + ")"
	case 21:
		return "<-" + g.id()
	// ---- XGo only ----
	case 22, 23:
		return "[" + g.exprList(d, 0, 4) + "]" // slice literal
	case 24:
		return "{" + g.kvList(d) + "}" // map literal
	case 25:
		return "[" + g.Expr(d) + " " + g.forPhrases(d) + "]"
	case 26:
		return "{" + g.Expr(d) + ": " + g.Expr(d) + " " + g.forPhrases(d) + "}"
	case 27:
		return "{" + g.Expr(d) + " " + g.forPhrases(d) + "}"
	case 28:
		return "{" + g.forPhrases(d) + "}"
	case 29:
		return g.primary(g.call(d)) + fw.Pick(r, []string{"!", "?", "?:" + g.operand(d)})
	case 30:
		return fw.Pick(r, []string{g.id() + " => " + g.Expr(d), "(" + g.id() + ", " + g.id() + ") => " + g.Expr(d), "() => " + g.Expr(d), g.id() + " => " + g.Block(d), "(x, y) => " + g.Block(d), "x => (x, " + g.Expr(d) + ")"})
	case 31:
		return fw.Pick(r, []string{"$" + g.id(), "${" + g.id() + "}"})
	case 32:
		return fw.Pick(r, []string{"tpl`expr = INT % \",\"`", "json`{\"a\": 1}`", "re`^a+$`", "html`<b>x</b>`"})
	case 33:
		return g.primary(g.Expr(d)) + "." + fw.Pick(r, []string{"len", "int", "string", "name"})
	case 34:
		return g.primary(g.Expr(d)) + "." + g.id() + "." + g.id()
	case 35:
		return g.Expr(d) + " " + fw.Pick(r, []string{"->", "<>"}) + " " + g.Expr(d)
	case 36:
		return "[" + g.exprList(d, 1, 3) + "]"
	default:
		return "[" + g.exprList(d, 1, 2) + ", " + g.id() + "...]"
	}
}

// primary wraps x in parentheses unless it is already a primary expression.
func (g *XSyn) primary(x string) string {
	simple := true
	depth := 0
	for i := 0; i < len(x); i++ {
		c := x[i]
		switch {
		case c == '(' || c == '[' || c == '{':
			depth++
		case c == ')' || c == ']' || c == '}':
			depth--
		case depth == 0 && !(c == '_' || c == '.' || c >= '0' && c <= '9' || c >= 'a' && c <= 'z' || c >= 'A' && c <= 'Z'):
			simple = false
		}
	}
	if simple && x != "" && !(x[0] >= '0' && x[0] <= '9') && x[0] != '.' {
		return x
	}
	return "(" + x + ")"
}

func (g *XSyn) operand(d int) string { return g.primary(g.Expr(d)) }

func (g *XSyn) call(d int) string {
	r := g.R
	fn := fw.Pick(r, []string{g.id(), g.id() + "." + g.id(), "fmt.Println", g.primary(g.Expr(d))})
	args := g.exprList(d, 0, 3)
	if args != "" && r.Chance(1, 8) {
		args += "..."
	}
	return fn + "(" + args + ")"
}

func (g *XSyn) exprList(d, lo, hi int) string {
	n := g.R.Range(lo, hi)
	parts := make([]string, n)
	for i := range parts {
		parts[i] = g.Expr(d)
	}
	return strings.Join(parts, ", ")
}

func (g *XSyn) kvList(d int) string {
	n := g.R.Range(1, 3)
	parts := make([]string, n)
	for i := range parts {
		parts[i] = fw.Pick(g.R, []string{`"k"`, `"a"`, "1", g.id()}) + ": " + g.Expr(d)
	}
	return strings.Join(parts, ", ")
}

func (g *XSyn) rangeExpr(d int) string {
	r := g.R
	switch r.Intn(5) {
	case 0:
		return ":" + g.operand(d)
	case 1:
		return g.operand(d) + ":" + g.operand(d)
	case 2:
		return g.operand(d) + ":" + g.operand(d) + ":" + g.operand(d)
	case 3:
		return ":" + g.operand(d) + ":" + g.operand(d)
	}
	return g.Expr(d)
}

func (g *XSyn) forPhrases(d int) string {
	r := g.R
	n := r.Range(1, 2)
	parts := make([]string, n)
	for i := range parts {
		v := g.id()
		if r.Chance(1, 3) {
			v = g.id() + ", " + g.id()
		}
		src := g.rangeExpr(d)
		if strings.HasPrefix(src, "{") {
			src = "(" + src + ")"
		}
		p := "for " + v + " <- " + src
		if r.Chance(1, 2) {
			p += " if " + fw.Pick(r, []string{"", g.id() + " := " + g.Expr(d) + "; "}) + g.Expr(d)
		}
		parts[i] = p
	}
	return strings.Join(parts, " ")
}

func (g *XSyn) params() string {
	return fw.Pick(g.R, []string{"", "a int", "a, b int", "s string, n ...int", "f func(int) int", "x T, y *T", "_ int", "int, string"})
}

func (g *XSyn) nl() string { return "\n" + strings.Repeat("\t", g.ind) }

// Block draws "{ stmts }".
func (g *XSyn) Block(d int) string {
	n := g.R.Range(0, 3)
	if d <= 0 {
		n = g.R.Range(0, 1)
	}
	var b strings.Builder
	b.WriteString("{")
	g.ind++
	for i := 0; i < n; i++ {
		b.WriteString(g.nl() + g.Stmt(d-1))
	}
	g.ind--
	if n > 0 {
		b.WriteString(g.nl())
	}
	b.WriteString("}")
	return b.String()
}

// condExpr draws an expression usable as an if/for/switch header (no bare composite literal).
func (g *XSyn) condExpr(d int) string {
	old := g.GoOnly
	g.GoOnly = true // statement headers: keep to plain Go expressions (composite literals parenthesised)
	x := g.Expr(d)
	g.GoOnly = old
	if strings.Contains(x, "{") {
		return "(" + x + ")"
	}
	return x
}

// Stmt draws one statement (without trailing newline).
func (g *XSyn) Stmt(d int) string {
	r := g.R
	if d < 0 {
		d = 0
	}
	n := 30
	if !g.GoOnly {
		n = 40
	}
	switch r.Intn(n) {
	case 0, 1:
		return g.call(d)
	case 2, 3:
		return g.id() + " := " + g.Expr(d)
	case 4:
		return g.id() + ", " + g.id() + " := " + g.Expr(d) + ", " + g.Expr(d)
	case 5:
		return g.lhs(d) + " = " + g.Expr(d)
	case 6:
		return g.lhs(d) + " " + fw.Pick(r, []string{"+=", "-=", "*=", "/=", "%=", "&=", "|=", "^=", "<<=", ">>=", "&^="}) + " " + g.Expr(d)
	case 7:
		return g.lhs(d) + fw.Pick(r, []string{"++", "--"})
	case 8:
		return "var " + g.id() + " " + g.typ() + fw.Pick(r, []string{"", " = " + g.Expr(d)})
	case 9:
		return "var " + g.id() + " = " + g.Expr(d)
	case 10:
		return "const " + g.id() + fw.Pick(r, []string{"", " int"}) + " = " + g.Expr(d)
	case 11:
		s := "if " + fw.Pick(r, []string{"", g.id() + " := " + g.Expr(d) + "; "}) + g.condExpr(d) + " " + g.Block(d)
		switch r.Intn(3) {
		case 0:
			s += " else " + g.Block(d)
		case 1:
			s += " else if " + g.condExpr(d) + " " + g.Block(d)
		}
		return s
	case 12:
		return "for " + g.Block(d)
	case 13:
		return "for " + g.condExpr(d) + " " + g.Block(d)
	case 14:
		return "for " + g.id() + " := 0; " + g.condExpr(d) + "; " + g.id() + "++ " + g.Block(d)
	case 15:
		return "for " + fw.Pick(r, []string{"", g.id() + " := ", g.id() + ", " + g.id() + " := ", "_, " + g.id() + " = "}) + "range " + g.condExpr(d) + " " + g.Block(d)
	case 16:
		var b strings.Builder
		b.WriteString("switch " + fw.Pick(r, []string{"", g.condExpr(d) + " ", g.id() + " := " + g.Expr(d) + "; " + g.id() + " "}) + "{")
		for k := r.Range(0, 3); k > 0; k-- {
			b.WriteString(g.nl() + "case " + g.exprList(d, 1, 2) + ":")
			g.ind++
			b.WriteString(g.nl() + g.Stmt(d-1))
			if r.Chance(1, 5) {
				b.WriteString(g.nl() + "fallthrough")
			}
			g.ind--
		}
		if r.Bool() {
			b.WriteString(g.nl() + "default:")
			g.ind++
			b.WriteString(g.nl() + g.Stmt(d-1))
			g.ind--
		}
		b.WriteString(g.nl() + "}")
		return b.String()
	case 17:
		return "switch " + fw.Pick(r, []string{"v := ", ""}) + g.id() + ".(type) {" + g.nl() + "case int, " + g.typ() + ":" + g.nl() + "\t" + g.Stmt(d-1) + g.nl() + "case nil:" + g.nl() + "default:" + g.nl() + "\t" + g.Stmt(d-1) + g.nl() + "}"
	case 18:
		return "select {" + g.nl() + "case " + g.id() + " := <-" + g.id() + ":" + g.nl() + "\t" + g.Stmt(d-1) + g.nl() + "case " + g.id() + " <- " + g.Expr(d) + ":" + g.nl() + "case <-" + g.id() + ":" + g.nl() + "default:" + g.nl() + "}"
	case 19:
		return fw.Pick(r, []string{"go ", "defer "}) + fw.Pick(r, []string{g.call(d), "func() " + g.Block(d) + "()"})
	case 20:
		return "return" + fw.Pick(r, []string{"", " " + g.Expr(d), " " + g.Expr(d) + ", " + g.Expr(d)})
	case 21:
		lbl := fw.Pick(r, []string{"L", "Outer"})
		if r.Chance(1, 4) {
			// a label as the last item of a block (labels an empty statement)
			return "{" + g.nl() + "\tgoto " + lbl + "end" + g.nl() + "\t" + g.Stmt(d-1) + g.nl() + lbl + "end:" + g.nl() + "}"
		}
		return lbl + ":" + g.nl() + "for " + g.Block(d)
	case 22:
		return fw.Pick(r, []string{"break", "continue", "goto L", "break L", "continue Outer"})
	case 23:
		return g.Block(d)
	case 24:
		return g.id() + " <- " + g.Expr(d)
	case 25:
		return "type " + fw.Pick(r, []string{"T", "U"}) + " " + fw.Pick(r, []string{"struct {" + g.nl() + "\ta int" + g.nl() + "\tb, c string `json:\"b\"`" + g.nl() + "\t*T" + g.nl() + "}", "interface {" + g.nl() + "\tM(a int) error" + g.nl() + "\tfmt.Stringer" + g.nl() + "}", "= int", "[]int", "func(int) string", "map[string]*T"})
	case 26:
		return "var (" + g.nl() + "\t" + g.id() + " int" + g.nl() + "\t" + g.id() + ", " + g.id() + " = " + g.Expr(d) + ", " + g.Expr(d) + g.nl() + ")"
	case 27:
		return "const (" + g.nl() + "\tA = iota" + g.nl() + "\tB" + g.nl() + "\tC = " + g.Expr(d) + g.nl() + ")"
	case 28:
		return g.id() + ", " + g.id() + " = " + g.id() + ", " + g.id()
	case 29:
		return "_ = " + g.Expr(d)
	// ---- XGo only ----
	case 30, 31:
		return fw.Pick(r, []string{"echo", "println", "printf", g.id() + "." + g.id(), "fmt.println"}) + " " + g.cmdArgs(d)
	case 32, 33:
		v := g.id()
		if r.Chance(1, 3) {
			v += ", " + g.id()
		}
		s := "for " + v + fw.Pick(r, []string{" <- ", " in "}) + g.condRange(d)
		if r.Chance(1, 3) {
			s += " if " + g.condExpr(d)
		}
		return s + " " + g.Block(d)
	case 34:
		return "for " + fw.Pick(r, []string{g.id() + " := ", ""}) + "range " + g.rangeOnly(d) + " " + g.Block(d)
	case 35:
		return g.id() + " <- " + g.Expr(d) + ", " + g.Expr(d)
	case 36:
		return g.id() + " <- " + g.id() + "..."
	case 37:
		return g.id() + " := " + g.primary(g.call(d)) + fw.Pick(r, []string{"!", "?", "?:" + g.operand(d)})
	case 38:
		return g.primary(g.call(d)) + fw.Pick(r, []string{"!", "?"})
	default:
		switch r.Intn(4) {
		case 0:
			return "echo [" + g.simpleList(2) + ";]" // one-line matrix with a single row
		case 1:
			return "echo [" + g.simpleList(2) + "; " + g.simpleList(2) + "]" // one-line matrix
		}
		return "echo [" + g.nl() + "\t" + g.simpleList(2) + g.nl() + "\t" + g.simpleList(2) + g.nl() + "]" // matrix literal
	}
}

func (g *XSyn) simpleList(n int) string {
	parts := make([]string, n)
	for i := range parts {
		parts[i] = fw.Pick(g.R, []string{g.id(), g.lit(), g.id() + "+1"})
	}
	return strings.Join(parts, ", ")
}

func (g *XSyn) condRange(d int) string {
	r := g.R
	so := func() string { return fw.Pick(r, []string{g.id(), g.lit(), g.id() + "." + g.id(), g.id() + "(" + g.id() + ")", "len(" + g.id() + ")", "(" + g.id() + " + 1)"}) }
	switch r.Intn(6) {
	case 0:
		return ":" + so()
	case 1:
		return so() + ":" + so()
	case 2:
		return so() + ":" + so() + ":" + so()
	}
	return g.condExpr(d)
}

func (g *XSyn) rangeOnly(d int) string {
	return fw.Pick(g.R, []string{":" + g.operand(d), g.operand(d) + ":" + g.operand(d), g.operand(d) + ":" + g.operand(d) + ":" + g.operand(d)})
}

func (g *XSyn) cmdArgs(d int) string {
	n := g.R.Range(1, 3)
	parts := make([]string, n)
	for i := range parts {
		x := g.Expr(d)
		if i == 0 && (strings.HasPrefix(x, "(") || strings.HasPrefix(x, "[") || strings.HasPrefix(x, "-") || strings.HasPrefix(x, "+") || strings.HasPrefix(x, "*") || strings.HasPrefix(x, "&") || strings.HasPrefix(x, "<") || strings.HasPrefix(x, "{") || strings.HasPrefix(x, "!") || strings.HasPrefix(x, "^") || strings.HasPrefix(x, ".")) {
			x = fw.Pick(g.R, []string{g.id(), g.lit()}) // first argument of a command call must not look like a continuation
		}
		parts[i] = x
	}
	out := strings.Join(parts, ", ")
	// a spread last argument (`echo xs...`); decided from the text so that the random stream stays as it is
	if last := parts[n-1]; isPlainIdent(last) && (len(out)+n)%3 == 0 {
		out += "..."
	}
	return out
}

func isPlainIdent(s string) bool {
	if s == "" || s == "_" || s == "nil" || s == "true" {
		return false
	}
	for i, c := range s {
		if !(c == '_' || c >= 'a' && c <= 'z' || c >= 'A' && c <= 'Z' || i > 0 && c >= '0' && c <= '9') {
			return false
		}
	}
	return true
}

func (g *XSyn) lhs(d int) string {
	return fw.Pick(g.R, []string{g.id(), g.id() + "." + g.id(), g.id() + "[" + g.Expr(0) + "]", "*" + g.id()})
}

// File draws a whole source file.
func (g *XSyn) File(asClass bool) string {
	r := g.R
	var b strings.Builder
	if g.GoOnly || r.Chance(1, 3) {
		b.WriteString("package " + fw.Pick(r, []string{"main", "foo"}) + "\n\n")
	}
	switch r.Intn(4) {
	case 0:
		b.WriteString("import \"fmt\"\n\n")
	case 1:
		b.WriteString("import (\n\t\"fmt\"\n\tos2 \"os\"\n\t_ \"strings\"\n)\n\n")
	}
	if asClass {
		if r.Bool() {
			b.WriteString("var (\n\tname string\n\tage  int\n\t*T\n)\n\n")
		}
	}
	nf := r.Range(0, 3)
	for i := 0; i < nf; i++ {
		if r.Chance(1, 4) && !asClass {
			b.WriteString(fw.Pick(r, []string{"var " + g.id() + " = " + g.Expr(2), "type " + fw.Pick(r, []string{"T", "U"}) + " struct {\n\ta int\n}", "const K = " + g.Expr(1)}) + "\n\n")
			continue
		}
		recv := ""
		if r.Chance(1, 3) {
			recv = fw.Pick(r, []string{"(p *T) ", "(t T) ", "(T) "})
		}
		fmt.Fprintf(&b, "func %s%s(%s) %s%s\n\n", recv, fw.Pick(r, []string{"f", "g", "Run", "onStart"}), g.params(), fw.Pick(r, []string{"", "int ", "(int, error) ", "(r int, err error) "}), g.Block(2))
	}
	if !g.GoOnly {
		ns := r.Range(0, 4)
		for i := 0; i < ns; i++ {
			b.WriteString(g.Stmt(2) + "\n")
		}
	}
	return b.String()
}

// GoFile draws a Go file whose top level holds only declarations.
func (g *XSyn) GoFile() string {
	r := g.R
	old := g.GoOnly
	g.GoOnly = true
	defer func() { g.GoOnly = old }()
	var b strings.Builder
	b.WriteString("package " + fw.Pick(r, []string{"main", "foo"}) + "\n\n")
	if r.Bool() {
		b.WriteString("import (\n\t\"fmt\"\n\tos2 \"os\"\n)\n\n")
	}
	n := r.Range(1, 5)
	for i := 0; i < n; i++ {
		switch k := r.Intn(10); {
		case k < 6:
			recv := ""
			if r.Chance(1, 3) {
				recv = fw.Pick(r, []string{"(p *T) ", "(t T) ", "(T) "})
			}
			fmt.Fprintf(&b, "func %s%s(%s) %s%s\n\n", recv, fw.Pick(r, []string{"f", "g", "Run", "main"}), g.params(), fw.Pick(r, []string{"", "int ", "(int, error) ", "(r int, err error) "}), g.Block(3))
		case k < 7:
			b.WriteString("var " + g.id() + " = " + g.Expr(2) + "\n\n")
		case k < 8:
			b.WriteString("type " + fw.Pick(r, []string{"T", "U"}) + " " + fw.Pick(r, []string{"struct {\n\ta int\n\tb, c string `json:\"b\"`\n\t*T\n}", "interface {\n\tM(a int) error\n\tfmt.Stringer\n}", "= int", "[]int", "func(int) string"}) + "\n\n")
		case k < 9:
			b.WriteString("const (\n\tA = iota\n\tB\n\tC = " + g.Expr(1) + "\n)\n\n")
		default:
			b.WriteString("var (\n\t" + g.id() + " int\n\t" + g.id() + ", " + g.id() + " = " + g.Expr(1) + ", " + g.Expr(1) + "\n)\n\n")
		}
	}
	return b.String()
}
