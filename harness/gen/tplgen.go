package gen

import (
	"fmt"
	"strings"

	"verif/fw"
)

// TG is the generator's own TPL grammar expression tree.
type TG struct {
	Kind string // ident | lit | seq | choice | un | bin
	Name string // ident: rule name or token class
	Text string // lit: source spelling incl. quotes
	Op   string // un: * + ? ; bin: % ++
	Kids []*TG
}

func TIdent(n string) *TG      { return &TG{Kind: "ident", Name: n} }
func TLit(src string) *TG      { return &TG{Kind: "lit", Text: src} }
func TSeq(k ...*TG) *TG        { return &TG{Kind: "seq", Kids: k} }
func TChoice(k ...*TG) *TG     { return &TG{Kind: "choice", Kids: k} }
func TUn(op string, x *TG) *TG { return &TG{Kind: "un", Op: op, Kids: []*TG{x}} }
func TBin(op string, x, y *TG) *TG {
	return &TG{Kind: "bin", Op: op, Kids: []*TG{x, y}}
}

// level: choice=1 seq=2 %=3 ++=4 unary=5 atom=6
func (g *TG) level() int {
	switch g.Kind {
	case "choice":
		return 1
	case "seq":
		return 2
	case "bin":
		if g.Op == "%" {
			return 3
		}
		return 4
	case "un":
		return 5
	}
	return 6
}

// String prints with the minimal parentheses implied by the documented precedence
// unary > ++ > % > sequence > | (both binary operators left-associative).
func (g *TG) String() string {
	var b strings.Builder
	g.print(&b, 0)
	return b.String()
}

func (g *TG) print(b *strings.Builder, min int) {
	if g.level() < min {
		b.WriteByte('(')
		g.print(b, 0)
		b.WriteByte(')')
		return
	}
	switch g.Kind {
	case "ident":
		b.WriteString(g.Name)
	case "lit":
		b.WriteString(g.Text)
	case "seq":
		for i, k := range g.Kids {
			if i > 0 {
				b.WriteByte(' ')
			}
			k.print(b, 3)
		}
	case "choice":
		for i, k := range g.Kids {
			if i > 0 {
				b.WriteString(" | ")
			}
			k.print(b, 2)
		}
	case "un":
		b.WriteString(g.Op)
		if g.Kids[0].Kind == "un" {
			b.WriteByte(' ') // "**" and "++" are tokens of their own
		}
		g.Kids[0].print(b, 5)
	case "bin":
		if g.Op == "%" {
			g.Kids[0].print(b, 3)
			b.WriteString(" % ")
			g.Kids[1].print(b, 4)
		} else {
			g.Kids[0].print(b, 4)
			b.WriteString(" ++ ")
			g.Kids[1].print(b, 5)
		}
	}
}

// Shape is a canonical structural rendering (fully parenthesised).
func (g *TG) Shape() string {
	switch g.Kind {
	case "ident":
		return g.Name
	case "lit":
		return g.Text
	case "un":
		return "(" + g.Op + g.Kids[0].Shape() + ")"
	case "bin":
		return "(" + g.Kids[0].Shape() + " " + g.Op + " " + g.Kids[1].Shape() + ")"
	}
	var parts []string
	for _, k := range g.Kids {
		parts = append(parts, k.Shape())
	}
	sep := " "
	if g.Kind == "choice" {
		sep = " | "
	}
	return "{" + g.Kind + ":" + strings.Join(parts, sep) + "}"
}

// TGOpts steers random expression generation.
type TGOpts struct {
	Atoms    []*TG // leaves to draw from
	MaxDepth int
	NoChoice bool
}

// RandTG draws a canonical expression tree (no 1-element or directly nested seq/choice... nested choice only
// under another operator or explicitly as parenthesised option).
func RandTG(r *fw.Rand, o TGOpts, depth int) *TG {
	if depth >= o.MaxDepth || r.Chance(1, 4) {
		a := fw.Pick(r, o.Atoms)
		c := *a
		return &c
	}
	switch k := r.Intn(10); {
	case k < 3:
		n := r.Range(2, 4)
		kids := make([]*TG, n)
		for i := range kids {
			kids[i] = RandTG(r, o, depth+1)
			if kids[i].Kind == "seq" { // canonical: flatten by wrapping? a seq directly in a seq is printed with parens and re-parses nested
				// the parser returns the inner sequence object for "(a b)": nesting is preserved
			}
		}
		return TSeq(kids...)
	case k < 5 && !o.NoChoice:
		n := r.Range(2, 3)
		kids := make([]*TG, n)
		for i := range kids {
			kids[i] = RandTG(r, o, depth+1)
		}
		return TChoice(kids...)
	case k < 8:
		return TUn(fw.Pick(r, []string{"*", "+", "?"}), RandTG(r, o, depth+1))
	case k < 9:
		return TBin("%", RandTG(r, o, depth+1), RandTG(r, o, depth+1))
	default:
		return TBin("++", RandTG(r, o, depth+1), RandTG(r, o, depth+1))
	}
}

// TGrammar is a list of rules; the first is the document rule.
type TGrammar struct {
	Names []string
	Body  []*TG
}

func (g *TGrammar) String() string {
	var b strings.Builder
	for i, n := range g.Names {
		fmt.Fprintf(&b, "%s = %s\n", n, g.Body[i].String())
	}
	return b.String()
}

var TokenClasses = []string{"IDENT", "INT", "FLOAT", "STRING", "CHAR"}
var TplKeywords = []string{`"if"`, `"else"`, `"for"`, `"x"`}
var TplOpLits = []string{`"+"`, `"-"`, `"*"`, `"("`, `")"`, `","`, `"+="`, `"<<"`, `'+'`, `'-'`, `':'`, `"=>"`}
