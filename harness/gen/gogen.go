package gen

import (
	"fmt"
	"strings"

	"verif/fw"
)

// GoGen generates deterministic, well-typed Go main programs in the subset XGo claims to accept:
// ints (all operators, shifts, conversions, constants, iota), strings, bools, slices, maps, structs, pointers,
// closures, methods (value/pointer receivers), interfaces and type switches, named results, variadics,
// defer/recover, switch/fallthrough, labelled loops. Programs print through fmt only, contain no '$' in
// literals, and iterate maps only through sorted keys. Candidates are validated with go/types by the caller.
type GoGen struct {
	R *fw.Rand
	// FmtBias makes fmt.Print*/Sprint*/Errorf and package-function calls more frequent (C25).
	FmtBias bool
	// NoHdrLit keeps composite literals of named types out of statement headers entirely.
	NoHdrLit bool
	nv      int
	ind     int
	labels  int
}

type gty int

const (
	tInt gty = iota
	tStr
	tBool
	tInts
	tMap
	tS
	tPS
	tF
	tFloat
	tShape
	tErr
)

var gtyName = map[gty]string{tInt: "int", tStr: "string", tBool: "bool", tInts: "[]int", tMap: "map[string]int", tS: "S", tPS: "*S", tF: "func(int) int", tFloat: "float64", tShape: "Shape", tErr: "error"}

type gvar struct {
	name string
	ty   gty
	ro   bool // loop counter: readable, never assigned (termination)
}

type gscope struct {
	vars   []gvar
	parent *gscope
	loop   []string // enclosing loop labels ("" = unlabelled)
}

func (s *gscope) all() []gvar {
	var out []gvar
	for c := s; c != nil; c = c.parent {
		out = append(out, c.vars...)
	}
	return out
}

// mut lists the assignable variables of type t (loop counters excluded).
func (s *gscope) mut(t gty) []string {
	var out []string
	for _, v := range s.all() {
		if v.ty == t && !v.ro {
			out = append(out, v.name)
		}
	}
	return out
}

func (s *gscope) of(t gty) []string {
	var out []string
	for _, v := range s.all() {
		if v.ty == t {
			out = append(out, v.name)
		}
	}
	return out
}

const goPrelude = `package main

import (
	"errors"
	"fmt"
	"os"
	"sort"
	"strconv"
	"strings"
)

type S struct {
	Num  int
	Txt  string
	Vals []int
}

func (s S) Sum() int {
	t := s.Num
	for _, v := range s.Vals {
		t += v
	}
	return t
}

func (s *S) Inc(d int) {
	s.Num += d
	s.Vals = append(s.Vals, d)
}

func (s S) String() string { return "S<" + strconv.Itoa(s.Num) + "," + s.Txt + ">" }

type Shape interface {
	Area() int
	Label() string
}

type Rect struct{ W, H int }
type Sq struct{ N int }
type Wrap struct {
	Rect
	Tag string
}

func (r Rect) Area() int     { return r.W * r.H }
func (r Rect) Label() string { return "rect" }
func (q *Sq) Area() int      { return q.N * q.N }
func (q *Sq) Label() string  { return "sq" + strconv.Itoa(q.N) }

type MyErr struct{ Code int }

func (e *MyErr) Error() string { return "myerr " + strconv.Itoa(e.Code) }

var errBase = errors.New("base error")

func at(xs []int, i int) int {
	if len(xs) == 0 {
		return 0
	}
	if i < 0 {
		i = -i
	}
	if i < 0 {
		i = 0
	}
	return xs[i%len(xs)]
}

func sub(s string, i, j int) string {
	if i < 0 {
		i = -i
	}
	if j < 0 {
		j = -j
	}
	if i < 0 || j < 0 {
		return ""
	}
	if len(s) == 0 {
		return ""
	}
	i, j = i%(len(s)+1), j%(len(s)+1)
	if i > j {
		i, j = j, i
	}
	return s[i:j]
}

func keys(m map[string]int) []string {
	ks := make([]string, 0, len(m))
	for k := range m {
		ks = append(ks, k)
	}
	sort.Strings(ks)
	return ks
}

func twice(f func(int) int, x int) int { return f(f(x)) }

func id(x int) int { return x }

func fid(x float64) float64 { return x }

func total(xs ...int) (n int) {
	for _, x := range xs {
		n += x
	}
	return
}

func divmod(a, b int) (q, r int, err error) {
	if b == 0 {
		return 0, 0, errBase
	}
	return a / b, a % b, nil
}

func guarded(x int) (res int, err error) {
	defer func() {
		if e := recover(); e != nil {
			res = -1
			err = fmt.Errorf("recovered: %v", e)
		}
	}()
	if x%3 == 0 {
		panic("bad " + strconv.Itoa(x))
	}
	if x%5 == 0 {
		var xs []int
		return xs[x], nil
	}
	return x * 2, nil
}

func safe(name string, f func()) {
	defer func() {
		if e := recover(); e != nil {
			fmt.Println(name, "panic:", e)
		}
	}()
	f()
}

var _ = strings.ToUpper
var _ = os.Exit
`

// Program returns a program with n generated test functions.
func (g *GoGen) Program(n int) string {
	var b strings.Builder
	b.WriteString(goPrelude)
	// a few package-level declarations with constant folding
	b.WriteString("\nconst (\n\tK0 = iota * 3\n\tK1\n\tK2\n\tKBig = 1 << 40\n\tKMix = KBig>>38 + K2\n)\n\nconst KStr = \"k\" + \"s\"\n\nvar gCount = K1 + 1\n\n")
	// iota with several names per spec; constants used where the compiler (not only Go) evaluates them
	b.WriteString("const (\n\tLvA, MkA = iota, 1 << iota\n\tLvB, MkB\n\tLvC, MkC\n\tNumLv = iota\n)\n\nvar lvHits [NumLv]int\n\nfunc tIota() {\n\tlvHits[LvC]++\n\tfmt.Println(\"iota\", len(lvHits), NumLv < 4, MkC, LvB, [MkB]bool{}, NumLv == 3)\n\tif NumLv > 3 {\n\t\tfmt.Println(\"more than three levels\")\n\t}\n}\n\n")
	// a function that uses package-level names declared after it (and after main), next to locals of the same
	// names: the later declarations are loaded on demand while this body is being compiled
	lateV := g.R.Range(1, 9)
	fmt.Fprintf(&b, "func tLate() {\n\tlateCount := \"local\"\n\tlateTag := %d\n\tfmt.Println(lateCount, lateTag, lateHelper(%d), lateJoin(\"x\"))\n}\n\n", lateV, lateV)
	for i := 0; i < n; i++ {
		b.WriteString(g.testFunc(i))
		b.WriteString("\n")
	}
	b.WriteString("func main() {\n\tsafe(\"tLate\", tLate)\n\tsafe(\"tIota\", tIota)\n")
	for i := 0; i < n; i++ {
		fmt.Fprintf(&b, "\tsafe(\"t%d\", t%d)\n", i, i)
	}
	b.WriteString("\tfmt.Println(\"gCount\", gCount, KMix, KStr)\n")
	switch g.R.Intn(8) {
	case 0:
		fmt.Fprintf(&b, "\tos.Exit(%d)\n", g.R.Range(1, 3))
	case 1:
		fmt.Fprintf(&b, "\tpanic(\"final %d\")\n", g.R.Intn(100))
	case 2:
		b.WriteString("\tpanic(&MyErr{7})\n")
	case 3:
		b.WriteString("\tvar m map[string]int\n\tm[\"x\"] = 1\n")
	}
	b.WriteString("}\n")
	fmt.Fprintf(&b, "\nfunc lateHelper(n int) int { return lateCount + n*lateStep }\n\nfunc lateJoin(s string) string { return lateTag + s }\n\nvar lateCount, lateStep = %d, 2\n\nvar lateTag = \"tag\"\n", 40+lateV)
	return b.String()
}

func (g *GoGen) fresh() string { g.nv++; return fmt.Sprintf("v%d", g.nv) }

func (g *GoGen) nl() string { return "\n" + strings.Repeat("\t", g.ind) }

func (g *GoGen) testFunc(i int) string {
	g.nv = 0
	sc := &gscope{}
	var b strings.Builder
	fmt.Fprintf(&b, "func t%d() {", i)
	g.ind = 1
	// seed variables of several types
	for _, t := range []gty{tInt, tInt, tStr, tBool, tInts, tMap, tS} {
		v := g.fresh()
		b.WriteString(g.nl() + v + " := " + g.lit(t))
		sc.vars = append(sc.vars, gvar{name: v, ty: t})
	}
	n := g.R.Range(4, 10)
	for k := 0; k < n; k++ {
		b.WriteString(g.stmt(sc, 2))
	}
	b.WriteString(g.nl() + g.dump(fmt.Sprintf("t%d", i), sc))
	g.ind = 0
	b.WriteString("\n}\n")
	return b.String()
}

func (g *GoGen) dump(tag string, sc *gscope) string {
	var parts []string
	for _, v := range sc.vars {
		switch v.ty {
		case tF:
			parts = append(parts, v.name+"(2)")
		case tPS:
			parts = append(parts, "*"+v.name)
		case tShape:
			parts = append(parts, v.name+".Area()", v.name+".Label()")
		default:
			parts = append(parts, v.name)
		}
	}
	return "fmt.Println(\"" + tag + "\", " + strings.Join(parts, ", ") + ")"
}

func (g *GoGen) lit(t gty) string {
	r := g.R
	switch t {
	case tInt:
		return fw.Pick(r, []string{"0", "1", "2", "3", "7", "10", "-4", "100", "1 << 5", "0x1F", "K1", "K2 + 1", "1_000", "int('a')", "int(uint8(250))"})
	case tStr:
		return fw.Pick(r, []string{`""`, `"a"`, `"xyz"`, `"Hello"`, `"a b"`, "`raw\\n`", `"é!"`, `KStr`, `"tab\there"`})
	case tBool:
		return fw.Pick(r, []string{"true", "false"})
	case tInts:
		return fw.Pick(r, []string{"[]int{}", "[]int{1, 2, 3}", "[]int{5}", "[]int{9, 8, 7, 6}", "[]int(nil)", "make([]int, 2, 5)", "[]int{2: 4, 0: 1}"})
	case tMap:
		return fw.Pick(r, []string{"map[string]int{}", `map[string]int{"a": 1}`, `map[string]int{"x": 10, "y": 20}`, "make(map[string]int)"})
	case tS:
		return fw.Pick(r, []string{"S{}", `S{Num: 1, Txt: "s"}`, `S{2, "two", []int{1, 2}}`, `S{Vals: []int{3}}`})
	case tPS:
		return fw.Pick(r, []string{"&S{}", `&S{Num: 5}`, "new(S)"})
	case tF:
		return fw.Pick(r, []string{"func(x int) int { return x + 1 }", "func(x int) int { return x * x }", "func(x int) int { return -x }"})
	case tFloat:
		return fw.Pick(r, []string{"0.5", "1.25", "3.0", "1e2", "fid(3) / 2"})
	case tShape:
		return fw.Pick(r, []string{"Shape(Rect{2, 3})", "Shape(&Sq{4})", "Shape(Rect{W: 1})"})
	case tErr:
		return fw.Pick(r, []string{"errBase", "error(&MyErr{3})", `errors.New("e1")`, `fmt.Errorf("wrap %w", errBase)`})
	}
	return "0"
}

// expr draws an expression of type t.
func (g *GoGen) expr(sc *gscope, t gty, d int) string {
	r := g.R
	vs := sc.of(t)
	if d <= 0 || r.Chance(1, 4) {
		if len(vs) > 0 && r.Chance(2, 3) {
			return fw.Pick(r, vs)
		}
		return g.lit(t)
	}
	e := func(tt gty) string { return g.expr(sc, tt, d-1) }
	switch t {
	case tInt:
		switch r.Intn(24) {
		case 0, 1, 2:
			return "(" + e(tInt) + " " + fw.Pick(r, []string{"+", "-", "*"}) + " " + e(tInt) + ")"
		case 3:
			return "(" + e(tInt) + " / (" + e(tInt) + " | 1))"
		case 4:
			return "(" + e(tInt) + " % (" + e(tInt) + " | 1))"
		case 5:
			return "(" + e(tInt) + " " + fw.Pick(r, []string{"&", "|", "^", "&^"}) + " " + e(tInt) + ")"
		case 6:
			return "(" + e(tInt) + " " + fw.Pick(r, []string{"<<", ">>"}) + " " + fw.Pick(r, []string{"0", "1", "3", "uint(2)", "K1 % 8"}) + ")"
		case 7:
			return fw.Pick(r, []string{"-", "^", "+"}) + "(" + e(tInt) + ")"
		case 8:
			return "len(" + e(tStr) + ")"
		case 9:
			return "len(" + e(tInts) + ")"
		case 10:
			return "at(" + e(tInts) + ", " + e(tInt) + ")"
		case 11:
			return e(tMap) + "[" + e(tStr) + "]"
		case 12:
			return e(tS) + ".Num"
		case 13:
			return e(tS) + ".Sum()"
		case 14:
			if fs := sc.of(tF); len(fs) > 0 {
				return fw.Pick(r, fs) + "(" + e(tInt) + ")"
			}
			return "twice(" + g.lit(tF) + ", " + e(tInt) + ")"
		case 15:
			return "total(" + e(tInt) + ", " + e(tInt) + ")"
		case 16:
			return "total(" + e(tInts) + "...)"
		case 17:
			return fw.Pick(r, []string{"int(int8(id(", "int(uint8(id(", "int(int16(id(", "int(uint16(id("}) + e(tInt) + ")))"
		case 18:
			return "cap(" + e(tInts) + "[:0])"
		case 19:
			return "int(fid(" + e(tFloat) + "))"
		case 20:
			return "strings.Count(" + e(tStr) + ", \"a\")"
		case 21:
			return "func() int { q, _, _ := divmod(" + e(tInt) + ", " + e(tInt) + "); return q }()"
		case 22:
			return "int([]byte(" + e(tStr) + " + \"z\")[0])"
		default:
			return "copy(make([]int, 2), " + e(tInts) + ")"
		}
	case tStr:
		switch r.Intn(12) {
		case 0, 1:
			return "(" + e(tStr) + " + " + e(tStr) + ")"
		case 2:
			return "strconv.Itoa(" + e(tInt) + ")"
		case 3:
			return "fmt.Sprintf(\"%d:%s\", " + e(tInt) + ", " + e(tStr) + ")"
		case 4:
			return "strings.ToUpper(" + e(tStr) + ")"
		case 5:
			return "sub(" + e(tStr) + ", " + e(tInt) + ", " + e(tInt) + ")"
		case 6:
			return "string(rune('a' + id(" + e(tInt) + "&15)))"
		case 7:
			return "strings.Repeat(" + e(tStr) + ", " + e(tInt) + " & 3)"
		case 8:
			return e(tS) + ".Txt"
		case 9:
			return "fmt.Sprint(" + e(tInts) + ", " + e(tBool) + ")"
		case 10:
			return e(tS) + ".String()"
		default:
			return "fmt.Sprintf(\"%v|%q|%5.2f\", " + e(tS) + ", " + e(tStr) + ", " + e(tFloat) + ")"
		}
	case tBool:
		switch r.Intn(9) {
		case 0, 1:
			return "(" + e(tInt) + " " + fw.Pick(r, []string{"<", "<=", "==", "!=", ">", ">="}) + " " + e(tInt) + ")"
		case 2:
			return "(" + e(tStr) + " " + fw.Pick(r, []string{"==", "<", "!="}) + " " + e(tStr) + ")"
		case 3:
			return "!" + e(tBool)
		case 4:
			return "(" + e(tBool) + " " + fw.Pick(r, []string{"&&", "||"}) + " " + e(tBool) + ")"
		case 5:
			return "(len(" + e(tInts) + ") > " + fw.Pick(r, []string{"0", "2"}) + ")"
		case 6:
			return "strings.Contains(" + e(tStr) + ", " + e(tStr) + ")"
		case 7:
			return "func() bool { _, ok := " + e(tMap) + "[" + e(tStr) + "]; return ok }()"
		default:
			return "errors.Is(" + g.lit(tErr) + ", errBase)"
		}
	case tInts:
		switch r.Intn(6) {
		case 0, 1:
			return "append(" + e(tInts) + ", " + e(tInt) + ")"
		case 2:
			return "append(" + e(tInts) + "[:0:0], " + e(tInts) + "...)"
		case 3:
			return e(tS) + ".Vals"
		case 4:
			return "[]int{" + e(tInt) + ", " + e(tInt) + "}"
		default:
			return "func() []int { ys := append([]int{}, " + e(tInts) + "...); sort.Ints(ys); return ys }()"
		}
	case tFloat:
		switch r.Intn(4) {
		case 0:
			return "(" + e(tFloat) + " " + fw.Pick(r, []string{"+", "-", "*"}) + " " + e(tFloat) + ")"
		case 1:
			return "float64(id(" + e(tInt) + "))"
		case 2:
			return "(" + e(tFloat) + " / 4)"
		default:
			return g.lit(tFloat)
		}
	case tS:
		if r.Bool() {
			return "S{Num: " + e(tInt) + ", Txt: " + e(tStr) + "}"
		}
		return "S{" + e(tInt) + ", " + e(tStr) + ", " + e(tInts) + "}"
	}
	if len(vs) > 0 {
		return fw.Pick(r, vs)
	}
	return g.lit(t)
}

func (g *GoGen) block(sc *gscope, d int, n int) string {
	inner := &gscope{parent: sc, loop: sc.loop}
	var b strings.Builder
	b.WriteString("{")
	g.ind++
	for k := 0; k < n; k++ {
		b.WriteString(g.stmt(inner, d))
	}
	// locals of the block must be used
	if len(inner.vars) > 0 {
		b.WriteString(g.nl() + g.dump("blk", inner))
	}
	g.ind--
	b.WriteString(g.nl() + "}")
	return b.String()
}

// stmt draws one statement (prefixed with newline+indent).
func (g *GoGen) stmt(sc *gscope, d int) string {
	r := g.R
	p := g.nl()
	assignable := func(t gty) (string, bool) {
		vs := sc.mut(t)
		if len(vs) == 0 {
			return "", false
		}
		return fw.Pick(r, vs), true
	}
	k := r.Intn(34)
	if g.FmtBias && r.Chance(1, 3) {
		k = 30 + r.Intn(4)
	}
	if d <= 0 && k >= 10 && k < 22 {
		k = r.Intn(10)
	}
	switch k {
	case 0, 1:
		t := fw.Pick(r, []gty{tInt, tInt, tStr, tBool, tInts, tFloat})
		v := g.fresh()
		sc.vars = append(sc.vars, gvar{name: v, ty: t})
		return p + v + " := " + g.expr(sc.parentOrSelfWithout(v), t, 3)
	case 2:
		t := fw.Pick(r, []gty{tInt, tStr, tBool, tInts})
		if v, ok := assignable(t); ok {
			return p + v + " = " + g.expr(sc, t, 3)
		}
	case 3:
		if v, ok := assignable(tInt); ok {
			return p + v + " " + fw.Pick(r, []string{"+=", "-=", "*=", "|=", "&=", "^=", "<<=", ">>=", "&^="}) + " " + g.opAssignRHS(sc)
		}
	case 4:
		if v, ok := assignable(tInt); ok {
			return p + v + fw.Pick(r, []string{"++", "--"})
		}
	case 5:
		if v, ok := assignable(tInts); ok {
			return p + v + " = append(" + v + ", " + g.expr(sc, tInt, 2) + ")"
		}
	case 6:
		if v, ok := assignable(tInts); ok {
			return p + "if len(" + v + ") > 0 {" + p + "\t" + v + "[len(" + v + ")-1] = " + g.expr(sc, tInt, 2) + p + "}"
		}
	case 7:
		if v, ok := assignable(tMap); ok {
			if r.Chance(1, 4) {
				return p + "delete(" + v + ", " + g.expr(sc, tStr, 1) + ")"
			}
			return p + v + "[" + g.expr(sc, tStr, 1) + "] = " + g.expr(sc, tInt, 2)
		}
	case 8:
		if a, ok := assignable(tInt); ok {
			if b, ok2 := assignable(tInt); ok2 && a != b {
				return p + a + ", " + b + " = " + b + ", " + a + " + " + b
			}
		}
	case 9:
		if v, ok := assignable(tS); ok {
			switch r.Intn(3) {
			case 0:
				return p + v + ".Num = " + g.expr(sc, tInt, 2)
			case 1:
				return p + v + ".Inc(" + g.expr(sc, tInt, 1) + ")"
			default:
				c := g.fresh()
				sc.vars = append(sc.vars, gvar{name: c, ty: tS})
				return p + c + " := " + v + p + c + ".Num++" + p + c + ".Vals = append(" + c + ".Vals, 1)"
			}
		}
	case 10, 11:
		s := p + "if " + g.hdrExpr(sc, tBool, 2) + " " + g.block(sc, d-1, r.Range(1, 2))
		switch r.Intn(3) {
		case 0:
			s += " else " + g.block(sc, d-1, 1)
		case 1:
			s += " else if " + g.hdrExpr(sc, tBool, 1) + " " + g.block(sc, d-1, 1) + " else " + g.block(sc, d-1, 1)
		}
		return s
	case 12:
		iv := g.fresh()
		inner := &gscope{parent: sc, vars: []gvar{{iv, tInt, true}}, loop: append(append([]string{}, sc.loop...), "")}
		return p + "for " + iv + " := 0; " + iv + " < " + fmt.Sprint(r.Range(1, 4)) + "; " + iv + "++ " + g.loopBody(inner, d-1)
	case 13:
		iv, xv := g.fresh(), g.fresh()
		inner := &gscope{parent: sc, vars: []gvar{{name: iv, ty: tInt}, {name: xv, ty: tInt}}, loop: append(append([]string{}, sc.loop...), "")}
		return p + "for " + iv + ", " + xv + " := range " + g.hdrExpr(sc, tInts, 1) + " " + g.loopBody(inner, d-1)
	case 14:
		kv := g.fresh()
		if m, ok := assignable(tMap); ok {
			inner := &gscope{parent: sc, vars: []gvar{{name: kv, ty: tStr}}, loop: append(append([]string{}, sc.loop...), "")}
			return p + "for _, " + kv + " := range keys(" + m + ") " + g.loopBody(inner, d-1)
		}
	case 15:
		iv, cv := g.fresh(), g.fresh()
		inner := &gscope{parent: sc, loop: append(append([]string{}, sc.loop...), "")}
		return p + "for " + iv + ", " + cv + " := range " + g.hdrExpr(sc, tStr, 1) + " {" + p + "\tfmt.Println(" + iv + ", " + cv + ", string(" + cv + "))" + p + "\tif " + iv + " > 1 {" + p + "\t\tbreak" + p + "\t}" + p + "}" + strings.Repeat("", len(inner.vars))
	case 16:
		// labelled nested loops
		g.labels++
		lbl := fmt.Sprintf("L%d", g.labels)
		iv, jv := g.fresh(), g.fresh()
		body := "if " + iv + "+" + jv + " == " + fmt.Sprint(r.Range(1, 3)) + " {" + p + "\t\t\t" + fw.Pick(r, []string{"continue " + lbl, "break " + lbl, "continue", "break"}) + p + "\t\t}"
		return p + lbl + ":" + p + "for " + iv + " := 0; " + iv + " < 3; " + iv + "++ {" + p + "\tfor " + jv + " := 0; " + jv + " < 3; " + jv + "++ {" + p + "\t\t" + body + p + "\t\tfmt.Println(\"" + lbl + "\", " + iv + ", " + jv + ")" + p + "\t}" + p + "\tif false {" + p + "\t\tcontinue " + lbl + p + "\t}" + p + "}"
	case 17:
		tag := g.hdrExpr(sc, tInt, 2)
		var b strings.Builder
		b.WriteString(p + "switch " + fw.Pick(r, []string{"", "sw := " + tag + " & 3; "}))
		useInit := strings.Contains(b.String(), "sw :=")
		if useInit {
			b.WriteString("sw {")
		} else {
			b.WriteString("(" + tag + ") & 3 {")
		}
		for c := 0; c < 3; c++ {
			if c == 1 && r.Bool() {
				b.WriteString(p + "case 1, 2:")
				c++
			} else {
				fmt.Fprintf(&b, "%scase %d:", p, c)
			}
			g.ind++
			switch r.Intn(8) {
			case 0: // a clause that only falls through
				b.WriteString(g.nl() + "fallthrough")
			case 1: // an empty clause
			default:
				b.WriteString(g.clause(sc, d-1))
				if r.Chance(1, 3) {
					b.WriteString(g.nl() + "fallthrough")
				}
			}
			g.ind--
		}
		b.WriteString(p + "default:")
		g.ind++
		b.WriteString(g.clause(sc, d-1))
		g.ind--
		b.WriteString(p + "}")
		return b.String()
	case 18:
		return p + "switch {" + p + "case " + g.expr(sc, tBool, 2) + ":" + p + "\tfmt.Println(\"sw-a\")" + p + "case " + g.expr(sc, tBool, 1) + ":" + p + "\tfmt.Println(\"sw-b\")" + p + "\tfallthrough" + p + "default:" + p + "\tfmt.Println(\"sw-d\")" + p + "}"
	case 19:
		// closure capturing and mutating
		acc, fn := g.fresh(), g.fresh()
		sc.vars = append(sc.vars, gvar{name: acc, ty: tInt})
		s := p + acc + " := " + g.expr(sc.parentOrSelfWithout(acc), tInt, 1) + p + fn + " := func(d int) int {" + p + "\t" + acc + " += d" + p + "\treturn " + acc + " * 2" + p + "}"
		s += p + "fmt.Println(\"clo\", " + fn + "(" + g.expr(sc.parentOrSelfWithout(acc), tInt, 1) + "), " + fn + "(1), " + acc + ")"
		return s
	case 20:
		// closures in a loop capturing the loop variable copy
		fs, i2 := g.fresh(), g.fresh()
		return p + "var " + fs + " []func() int" + p + "for " + i2 + " := 0; " + i2 + " < 3; " + i2 + "++ {" + p + "\tc := " + i2 + " * " + g.expr(sc, tInt, 1) + p + "\t" + fs + " = append(" + fs + ", func() int { c++; return c })" + p + "}" + p + "for _, f := range " + fs + " {" + p + "\tfmt.Println(\"fs\", f(), f())" + p + "}"
	case 21:
		// interface + type switch
		sh := g.fresh()
		return p + "var " + sh + " Shape = " + fw.Pick(r, []string{"Rect{2, " + g.expr(sc, tInt, 1) + "}", "&Sq{" + g.expr(sc, tInt, 1) + " & 7}", "Wrap{Rect{1, 2}, \"w\"}"}) + p + "switch x := " + sh + ".(type) {" + p + "case Rect:" + p + "\tfmt.Println(\"rect\", x.W, x.H, x.Area())" + p + "case *Sq:" + p + "\tx.N++" + p + "\tfmt.Println(\"sq\", x.N, " + sh + ".Area())" + p + "default:" + p + "\tfmt.Println(\"other\", x.Label(), x.Area())" + p + "}"
	case 22:
		// multiple results, named results, recover
		a, e1 := g.fresh(), g.fresh()
		return p + a + ", " + e1 + " := guarded(" + g.expr(sc, tInt, 2) + ")" + p + "fmt.Println(\"guarded\", " + a + ", " + e1 + ")"
	case 23:
		q, rr, e1 := g.fresh(), g.fresh(), g.fresh()
		return p + q + ", " + rr + ", " + e1 + " := divmod(" + g.expr(sc, tInt, 2) + ", " + g.expr(sc, tInt, 1) + ")" + p + "fmt.Println(\"divmod\", " + q + ", " + rr + ", " + e1 + ", " + e1 + " == errBase)"
	case 24:
		// defer order and argument evaluation time
		x := g.fresh()
		return p + "func() {" + p + "\t" + x + " := " + g.expr(sc, tInt, 1) + p + "\tdefer fmt.Println(\"defer-a\", " + x + ")" + p + "\t" + x + "++" + p + "\tdefer func() { fmt.Println(\"defer-b\", " + x + ") }()" + p + "\t" + x + " *= 2" + p + "}()"
	case 25:
		// pointer aliasing
		if v, ok := assignable(tS); ok {
			pp := g.fresh()
			return p + pp + " := &" + v + p + pp + ".Num += " + g.expr(sc, tInt, 1) + p + pp + ".Inc(1)" + p + "fmt.Println(\"ptr\", " + v + ".Num, (*" + pp + ").Txt, len(" + pp + ".Vals))"
		}
	case 26:
		// slices share / copy
		if v, ok := assignable(tInts); ok {
			a, b := g.fresh(), g.fresh()
			return p + a + " := append([]int{}, " + v + "...)" + p + b + " := " + a + p + "if len(" + b + ") > 0 {" + p + "\t" + b + "[0] = 99" + p + "}" + p + "fmt.Println(\"alias\", " + a + ", " + b + ", len(" + v + "), " + a + "[:len(" + a + "):len(" + a + ")])"
		}
	case 27:
		// comma-ok forms
		if m, ok := assignable(tMap); ok {
			a, o := g.fresh(), g.fresh()
			return p + a + ", " + o + " := " + m + "[" + g.expr(sc, tStr, 1) + "]" + p + "fmt.Println(\"commaok\", " + a + ", " + o + ")"
		}
	case 28:
		// method value and func-typed variable
		if v, ok := assignable(tS); ok {
			f := g.fresh()
			return p + f + " := " + v + ".Sum" + p + v + ".Num += 100" + p + "fmt.Println(\"mval\", " + f + "(), " + v + ".Sum())"
		}
	case 29:
		// explicit panic inside a nested safe call
		return p + "safe(\"inner\", func() {" + p + "\tvar xs []int" + p + "\t_ = xs[" + g.expr(sc, tInt, 1) + " & 3]" + p + "})"
	case 30:
		return p + "fmt.Println(" + g.expr(sc, tStr, 2) + ", " + g.expr(sc, tInt, 2) + ")"
	case 31:
		return p + "fmt.Printf(\"%v %d %s|\\n\", " + g.expr(sc, tBool, 1) + ", " + g.expr(sc, tInt, 2) + ", " + g.expr(sc, tStr, 1) + ")"
	case 32:
		return p + "fmt.Println(fmt.Errorf(\"err %d: %w\", " + g.expr(sc, tInt, 1) + ", errBase), strings.ToUpper(" + g.expr(sc, tStr, 1) + "), strconv.Quote(" + g.expr(sc, tStr, 1) + "))"
	default:
		return p + "fmt.Fprintln(os.Stdout, " + g.expr(sc, tInts, 2) + ", fmt.Sprint(" + g.expr(sc, tS, 1) + "), fmt.Sprintf(\"%T\", " + g.expr(sc, tInt, 0) + "))"
	}
	return p + "fmt.Println(" + g.expr(sc, tInt, 3) + ")"
}

// clause draws the body of a case clause (its own scope; locals are dumped before the clause ends).
func (g *GoGen) clause(sc *gscope, d int) string {
	inner := &gscope{parent: sc, loop: sc.loop}
	s := g.stmt(inner, d)
	if len(inner.vars) > 0 {
		s += g.nl() + g.dump("case", inner)
	}
	return s
}

// hdr parenthesises an expression used in a statement header if it contains a composite literal of a named type.
func hdr(x string) string {
	if strings.Contains(x, "S{") || strings.Contains(x, "Rect{") || strings.Contains(x, "Sq{") || strings.Contains(x, "MyErr{") {
		return "(" + x + ")"
	}
	return x
}

// hdrExpr generates an expression for a statement header; composite literals of named types are rare there
// (they need parentheses in Go, and code that writes them is rare too).
func (g *GoGen) hdrExpr(sc *gscope, t gty, d int) string {
	for try := 0; ; try++ {
		x := g.expr(sc, t, d)
		h := hdr(x)
		if h == x {
			return h
		}
		if g.NoHdrLit {
			if try >= 6 {
				return hdrFallback[t]
			}
			continue
		}
		if try >= 6 || g.R.Chance(1, 12) {
			return h
		}
	}
}

var hdrFallback = map[gty]string{tInt: "gCount", tStr: "KStr", tBool: "(gCount > 0)", tInts: "[]int{1, 2}"}

func (g *GoGen) opAssignRHS(sc *gscope) string {
	return fw.Pick(g.R, []string{"1", "2", "3", "(" + g.expr(sc, tInt, 1) + " & 7)"})
}

func (g *GoGen) loopBody(inner *gscope, d int) string {
	r := g.R
	var b strings.Builder
	b.WriteString("{")
	g.ind++
	b.WriteString(g.stmt(inner, d))
	if r.Chance(1, 3) {
		b.WriteString(g.nl() + "if " + g.hdrExpr(inner, tBool, 1) + " {" + g.nl() + "\t" + fw.Pick(r, []string{"continue", "break"}) + g.nl() + "}")
	}
	b.WriteString(g.nl() + g.dump("loop", inner))
	g.ind--
	b.WriteString(g.nl() + "}")
	return b.String()
}

// parentOrSelfWithout returns a scope view that hides the variable being declared.
func (s *gscope) parentOrSelfWithout(name string) *gscope {
	c := &gscope{parent: s.parent, loop: s.loop}
	for _, v := range s.vars {
		if v.name != name {
			c.vars = append(c.vars, v)
		}
	}
	return c
}
