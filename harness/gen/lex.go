// Package gen holds the input generators and mutators shared by the monitors.
package gen

import (
	"strings"

	"verif/fw"
)

var GoKeywords = []string{"break", "case", "chan", "const", "continue", "default", "defer", "else", "fallthrough", "for",
	"func", "go", "goto", "if", "import", "interface", "map", "package", "range", "return", "select", "struct", "switch", "type", "var"}

var GoOperators = []string{"+", "-", "*", "/", "%", "&", "|", "^", "<<", ">>", "&^", "+=", "-=", "*=", "/=", "%=", "&=", "|=", "^=",
	"<<=", ">>=", "&^=", "&&", "||", "<-", "++", "--", "==", "<", ">", "=", "!", "!=", "<=", ">=", ":=", "...", "(", "[", "{", ",", ".",
	")", "]", "}", ";", ":", "~"}

// XGoOnlyOperators are spellings that are tokens in XGo but not in Go.
var XGoOnlyOperators = []string{"=>", "->", "<>", "?", "$", "#"}

var Idents = []string{"a", "x", "foo", "_", "_x", "x1", "αβ", "Foo", "i", "err", "c", "C", "py", "r", "e", "p", "nil", "true", "int", "string", "main", "echo", "println"}

var Ints = []string{"0", "1", "7", "42", "0x1F", "0X_1f", "0b101", "0B1", "0o17", "0O7", "017", "1_000", "09", "0b2", "0x", "1__0", "0_", "0b", "0o8", "9223372036854775807", "0xg"}

var Floats = []string{"1.5", ".5", "1.", "1e3", "1e+3", "1E-3", "0x1p-2", "0x.8p1", "1e", "0x1.0", "1_0.2_5", "0.", "00.5", "1e+", "0x1p", "0x_1p0", "1.e2", ".5e-1"}

var Imags = []string{"1i", "1.5i", "0x1p0i", "0b1i", "0i", "017i", "1e3i", ".5i"}

var Chars = []string{"'a'", "'\\n'", "'\\''", "'\\x41'", "'\\u00e9'", "'\\U0001F600'", "'\\000'", "'\\400'", "''", "'ab'", "'\\q'", "'é'", "'\\xZ'", "'\\\"'", "'\\u12'", "'\\UFFFFFFFF'", "'\\ud800'", "'"}

var Strings = []string{`""`, `"a"`, `"a\nb"`, `"\""`, `"\x41é"`, `"é"`, `"\q"`, `"a b"`, `"//x"`, `"/*"`, `"\'"`, `"\400"`, `"\x4"`, `"abc`}

var DollarStrings = []string{`"$x"`, `"${x}"`, `"$$"`, `"a$"`, `"${a+b}c"`}

var RawStrings = []string{"``", "`a`", "`a\nb`", "`a\r\nb`", "`\\n`", "`\"`", "`a"}

var Comments = []string{"//c", "// c d", "//", "/*c*/", "/**/", "/*c\nd*/", "/* c\r\nd */", "//c\r", "/*c", "//go:build x", "//line f:1"}

var SharpComments = []string{"#c", "# c d", "#", "#!x", "#*line ", "#*line f:1", "#/line f:1", "#line 5", "#*c*/", "#*"}

var XGoLits = []string{"1r", "1.5r", "10m", "5s", "2.5h", "3ms", "c\"x\"", "C\"x\"", "py\"x\"", "1kb", "7d", "0x1r", "1e3r"}

var Separators = []string{"", "", " ", " ", "\t", "\n", "\n", "\r\n", "\r", " \n ", "  ", "\n\n"}

// LexStream draws n lexemes with separators. If goOnly, XGo-specific spellings are not drawn
// (the C16 domain filter still decides on the go/scanner side).
func LexStream(r *fw.Rand, n int, goOnly bool, withComments bool) string {
	var b strings.Builder
	for i := 0; i < n; i++ {
		b.WriteString(Lexeme(r, goOnly, withComments))
		sep := fw.Pick(r, Separators)
		if withComments && r.Chance(1, 12) {
			sep += fw.Pick(r, Comments)
			if r.Bool() {
				sep += "\n"
			}
		}
		b.WriteString(sep)
	}
	return b.String()
}

func Lexeme(r *fw.Rand, goOnly, withComments bool) string {
	k := r.Intn(100)
	switch {
	case k < 22:
		return fw.Pick(r, Idents)
	case k < 32:
		return fw.Pick(r, GoKeywords)
	case k < 58:
		return fw.Pick(r, GoOperators)
	case k < 66:
		return fw.Pick(r, Ints)
	case k < 72:
		return fw.Pick(r, Floats)
	case k < 75:
		return fw.Pick(r, Imags)
	case k < 80:
		return fw.Pick(r, Chars)
	case k < 86:
		return fw.Pick(r, Strings)
	case k < 89:
		return fw.Pick(r, RawStrings)
	case k < 92:
		return RandNumber(r)
	}
	if goOnly {
		if k < 96 {
			return fw.Pick(r, GoOperators)
		}
		return fw.Pick(r, Idents)
	}
	switch {
	case k < 94:
		return fw.Pick(r, XGoOnlyOperators)
	case k < 96:
		return fw.Pick(r, XGoLits)
	case k < 98:
		return fw.Pick(r, DollarStrings)
	default:
		if withComments {
			return fw.Pick(r, SharpComments) + "\n"
		}
		return fw.Pick(r, XGoOnlyOperators)
	}
}

const numAlphabet = "01789_.xXbBoOeEpP+-afi"

// RandNumber draws a short string over the number alphabet (mostly number-like).
func RandNumber(r *fw.Rand) string {
	n := r.Range(1, 7)
	var b strings.Builder
	b.WriteByte("0123456789."[r.Intn(11)])
	for i := 1; i < n; i++ {
		b.WriteByte(numAlphabet[r.Intn(len(numAlphabet))])
	}
	return b.String()
}

// AllStrings enumerates all strings over alphabet with length in [1,maxLen] by index.
func CountStrings(alpha int, maxLen int) int {
	n, p := 0, 1
	for l := 1; l <= maxLen; l++ {
		p *= alpha
		n += p
	}
	return n
}

func NthString(alphabet string, idx int) string {
	a := len(alphabet)
	l, p := 1, a
	for idx >= p {
		idx -= p
		p *= a
		l++
	}
	buf := make([]byte, l)
	for i := l - 1; i >= 0; i-- {
		buf[i] = alphabet[idx%a]
		idx /= a
	}
	return string(buf)
}
