// Command xgoc compiles XGo files in-process the way the checks do and prints the Go output (debugging aid).
package main

import (
	"fmt"
	"os"
	"path/filepath"

	"verif/checks"
	"verif/fw"
)

func main() {
	files := map[string]string{}
	args := os.Args[1:]
	smart := false
	if len(args) > 0 && args[0] == "-smart" {
		smart = true
		args = args[1:]
	}
	for _, a := range args {
		b, err := os.ReadFile(a)
		if err != nil {
			fmt.Fprintln(os.Stderr, err)
			os.Exit(2)
		}
		if smart {
			out, err := checks.DebugSmart(b)
			if err != nil {
				fmt.Fprintln(os.Stderr, "SMART ERR:", err)
				os.Exit(1)
			}
			fmt.Fprintf(os.Stderr, "---- converted ----\n%s-------------------\n", out)
			files["main.xgo"] = string(out)
			continue
		}
		files[filepath.Base(a)] = string(b)
	}
	out, errs, pv, st := checks.DebugCompile(fw.RepoDir(), files, os.Getenv("FILELINE") != "")
	if pv != nil {
		fmt.Fprintln(os.Stderr, "PANIC:", pv)
		fmt.Fprintln(os.Stderr, st)
		os.Exit(1)
	}
	for _, e := range errs {
		fmt.Fprintln(os.Stderr, "ERR:", e)
	}
	os.Stdout.Write(out)
}
