package main

import (
	"verif/fw"

	_ "verif/checks"
)

func main() { fw.Main() }
