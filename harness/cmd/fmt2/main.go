package main

import (
	"fmt"
	"os"

	"github.com/goplus/xgo/format"
)

func main() {
	src, _ := os.ReadFile(os.Args[1])
	o1, err := format.Source(src, false, "a.xgo")
	if err != nil {
		fmt.Println("ERR1", err)
		return
	}
	o2, err := format.Source(o1, false, "a.xgo")
	if err != nil {
		fmt.Println("ERR2", err)
	}
	fmt.Printf("--- pass1\n%s--- pass2\n%s--- same=%v\n", o1, o2, string(o1) == string(o2))
}
