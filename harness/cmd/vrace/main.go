// vrace is the driver/worker binary of the concurrency monitors (C39-C41); it is built with -race and imports
// only the three concurrent packages of the repository.
package main

import (
	"verif/fw"

	_ "verif/conc"
)

func main() { fw.Main() }
