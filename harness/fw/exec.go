package fw

import "os/exec"

func execCommand(name string, args ...string) *exec.Cmd { return exec.Command(name, args...) }
