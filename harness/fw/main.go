package fw

import (
	"encoding/json"
	"fmt"
	"os"
	"path/filepath"
	"strconv"
)

// Main is the entry point shared by the driver binaries.
func Main() {
	args := os.Args[1:]
	if len(args) >= 1 && args[0] == "--worker" {
		// --worker ID tier seed scratch tag
		p := Lookup(args[1])
		if p == nil {
			fmt.Fprintln(os.Stderr, "unknown property", args[1])
			os.Exit(3)
		}
		seed, _ := strconv.ParseUint(args[3], 10, 64)
		env := &Env{Seed: seed, Tier: args[2], Repo: RepoDir(), Scratch: args[4], Worker: true}
		WorkerMain(p, env, args[5])
		return
	}
	if len(args) >= 1 && args[0] == "--list" {
		for _, id := range IDs() {
			fmt.Println(id)
		}
		return
	}
	if len(args) < 2 {
		fmt.Fprintln(os.Stderr, "usage: vcheck <ID> <quick|thorough> | vcheck <ID> --replay <file>")
		os.Exit(3)
	}
	id := args[0]
	p := Lookup(id)
	if p == nil {
		fmt.Fprintln(os.Stderr, "unknown property", id)
		os.Exit(3)
	}
	tier := args[1]
	if t := os.Getenv("VERIF_TIER"); t != "" && tier != "--replay" {
		tier = t
	}
	scratchRoot := os.Getenv("VERIF_SCRATCH")
	if scratchRoot == "" {
		scratchRoot = "/var/tmp/verif-scratch"
	}
	scratch := filepath.Join(scratchRoot, fmt.Sprintf("%s-%d", id, os.Getpid()))
	os.MkdirAll(scratch, 0o755)
	code := 3
	func() {
		if os.Getenv("VERIF_KEEP") == "" {
			defer os.RemoveAll(scratch)
		} else {
			fmt.Fprintln(os.Stderr, "keeping scratch", scratch)
		}
		if tier == "--replay" {
			code = replayMain(p, args[2], scratch)
			return
		}
		if tier != "quick" && tier != "thorough" {
			fmt.Fprintln(os.Stderr, "bad tier", tier)
			return
		}
		env := &Env{Seed: EnvSeed(), Tier: tier, Repo: RepoDir(), Scratch: scratch}
		d := NewDriver(p, env)
		if cr, ok := p.(CustomRunner); ok {
			if err := cr.RunCustom(env, d); err != nil {
				d.Inconclusive("custom runner: " + err.Error())
			}
		} else {
			if err := p.Setup(env); err != nil {
				d.Inconclusive("setup: " + err.Error())
			} else {
				d.RunCases(p.NumCases())
				if pr, ok := p.(PostRunner); ok {
					pr.PostRun(env, d)
				}
			}
		}
		code = d.Finish()
	}()
	os.Exit(code)
}

// replayMain re-runs exactly the case stored in a replay file, in a worker
// process, and reports whether it still violates.
func replayMain(p Prop, file, scratch string) int {
	b, err := os.ReadFile(file)
	if err != nil {
		fmt.Fprintln(os.Stderr, err)
		return 3
	}
	var rp struct {
		Seed uint64 `json:"seed"`
		Tier string `json:"tier"`
		Site string `json:"site"`
		Case Case   `json:"case"`
	}
	if err := json.Unmarshal(b, &rp); err != nil {
		fmt.Fprintln(os.Stderr, err)
		return 3
	}
	if os.Getenv("VERIF_REPLAY_CHILD") == "" {
		// run in a child so that a crash is reported, not suffered
		self, _ := os.Executable()
		cmd := execCommand(self, p.ID(), "--replay", file)
		cmd.Env = append(os.Environ(), "VERIF_REPLAY_CHILD=1", "GOTRACEBACK=all")
		cmd.Stdout = os.Stdout
		cmd.Stderr = os.Stderr
		err := cmd.Run()
		if err == nil {
			return 0
		}
		if cmd.ProcessState != nil && cmd.ProcessState.ExitCode() == 1 {
			return 1
		}
		fmt.Printf("VIOLATION property=%s replay=%s\n  (replay child died: %v)\n", p.ID(), file, err)
		return 1
	}
	env := &Env{Seed: rp.Seed, Tier: rp.Tier, Repo: RepoDir(), Scratch: scratch, Worker: true}
	if rp.Tier == "" {
		env.Tier = "quick"
	}
	if rr, ok := p.(Replayer); ok {
		return rr.Replay(env, rp.Case)
	}
	if err := p.Setup(env); err != nil {
		fmt.Fprintln(os.Stderr, "setup:", err)
		return 3
	}
	viol, _, skipped := RunOne(p, rp.Case)
	if pr, ok := p.(PostRunner); ok && len(viol) == 0 {
		d := NewDriver(p, env)
		pr.PostRun(env, d)
		viol = append(viol, d.Viol...)
		for _, s := range d.Inconcl {
			fmt.Println("inconclusive:", s)
		}
	}
	if skipped != "" {
		fmt.Println("case skipped:", skipped)
	}
	if len(viol) == 0 {
		fmt.Printf("replay: property %s held on this case\n", p.ID())
		return 0
	}
	for _, v := range viol {
		fmt.Printf("VIOLATION property=%s replay=%s\n  site=%s\n  %s\n", p.ID(), file, v.Site, v.Msg)
	}
	return 1
}

// Replayer is implemented by custom-runner properties.
type Replayer interface {
	Replay(env *Env, c Case) int
}
