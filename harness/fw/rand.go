package fw

// Rand is a splitmix64 PRNG: tiny, fast and fully determined by its seed.
type Rand struct{ s uint64 }

func NewRand(seed uint64) *Rand { return &Rand{s: seed} }

func (r *Rand) U64() uint64 {
	r.s += 0x9E3779B97F4A7C15
	z := r.s
	z = (z ^ (z >> 30)) * 0xBF58476D1CE4E5B9
	z = (z ^ (z >> 27)) * 0x94D049BB133111EB
	return z ^ (z >> 31)
}

// Intn returns a value in [0,n). n<=0 yields 0.
func (r *Rand) Intn(n int) int {
	if n <= 0 {
		return 0
	}
	return int(r.U64() % uint64(n))
}

// Range returns a value in [lo,hi].
func (r *Rand) Range(lo, hi int) int { return lo + r.Intn(hi-lo+1) }

func (r *Rand) Bool() bool { return r.U64()&1 == 1 }

// Chance is true with probability num/den.
func (r *Rand) Chance(num, den int) bool { return r.Intn(den) < num }

func (r *Rand) Float() float64 { return float64(r.U64()>>11) / (1 << 53) }

func Pick[T any](r *Rand, xs []T) T { return xs[r.Intn(len(xs))] }

func (r *Rand) Perm(n int) []int {
	p := make([]int, n)
	for i := range p {
		p[i] = i
	}
	for i := n - 1; i > 0; i-- {
		j := r.Intn(i + 1)
		p[i], p[j] = p[j], p[i]
	}
	return p
}

func Shuffle[T any](r *Rand, xs []T) {
	for i := len(xs) - 1; i > 0; i-- {
		j := r.Intn(i + 1)
		xs[i], xs[j] = xs[j], xs[i]
	}
}

// Fork derives an independent stream.
func (r *Rand) Fork() *Rand { return NewRand(r.U64()) }
