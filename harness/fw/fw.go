// Package fw is the shared driver/worker framework of the runtime monitors.
//
// A property is a deterministic, seed-indexed list of cases plus an oracle
// (Run) that executes the real code of /repo on one case and records
// violations and coverage. The driver never calls code under test: it
// re-executes the binary as workers that journal every case index before
// running it, so an escaping panic, a runtime fatal error or a kill is
// attributed to exactly one case.
package fw

import (
	"crypto/sha256"
	"encoding/hex"
	"encoding/json"
	"fmt"
	"hash/fnv"
	"os"
	"sort"
	"strconv"
	"strings"
)

// Case is one input of a property. It is fully serialisable: a replay file
// holds one Case and re-running it needs nothing else.
type Case struct {
	Idx  int               `json:"idx"`
	Kind string            `json:"kind,omitempty"`
	In   []byte            `json:"in,omitempty"` // raw bytes (base64 in JSON)
	P    map[string]string `json:"p,omitempty"`
	Aux  []string          `json:"aux,omitempty"`
}

func (c Case) Text() string { return string(c.In) }

func (c Case) Param(k string) string { return c.P[k] }

func (c Case) Hash() uint64 {
	h := fnv.New64a()
	h.Write([]byte(c.Kind))
	h.Write([]byte{0})
	h.Write(c.In)
	keys := make([]string, 0, len(c.P))
	for k := range c.P {
		keys = append(keys, k)
	}
	sort.Strings(keys)
	for _, k := range keys {
		h.Write([]byte{0})
		h.Write([]byte(k))
		h.Write([]byte{1})
		h.Write([]byte(c.P[k]))
	}
	for _, a := range c.Aux {
		h.Write([]byte{2})
		h.Write([]byte(a))
	}
	return h.Sum64()
}

// Violation is one refutation of the property observed on one case.
type Violation struct {
	Idx  int    `json:"idx"`
	Site string `json:"site"` // mechanical signature of the failing site
	Msg  string `json:"msg"`
	Case Case   `json:"case"`
}

// Rec collects what the oracle observed on one case.
type Rec struct {
	viol       []Violation
	cover      map[string]int
	skipped    string
	nontrivial bool
	cur        Case
	samples    *[]any
	hashOver   *uint64
	inconcl    []string
}

// Inconclusive records that the oracle could not decide this case (budget exhausted, checker timeout…).
func (r *Rec) Inconclusive(reason string) { r.inconcl = append(r.inconcl, reason) }

// Fail records a violation. site must be a stable, mechanical signature.
func (r *Rec) Fail(site, format string, args ...any) {
	msg := fmt.Sprintf(format, args...)
	if len(msg) > 2000 {
		msg = msg[:2000] + "…"
	}
	for _, v := range r.viol {
		if v.Site == site {
			return // one violation per site per case
		}
	}
	r.viol = append(r.viol, Violation{Idx: r.cur.Idx, Site: site, Msg: msg, Case: r.cur})
}

// Failed reports whether the current case already has a violation.
func (r *Rec) Failed() bool { return len(r.viol) > 0 }

// Cover counts an observation (token kind, node kind, construct, hook hit…).
func (r *Rec) Cover(key string) { r.cover[key]++ }

func (r *Rec) CoverN(key string, n int) { r.cover[key] += n }

// Skip marks the case as outside the property's domain (discarded).
func (r *Rec) Skip(reason string) { r.skipped = reason }

// NonTrivial marks the case as non-trivial by the property's stated rule.
func (r *Rec) NonTrivial() { r.nontrivial = true }

// Sample stores a human-readable rendering of the case for the evidence file.
func (r *Rec) Sample(v any) {
	if r.samples != nil && len(*r.samples) < 6 {
		*r.samples = append(*r.samples, v)
	}
}

// DistinctKey overrides the hash used to count distinct non-trivial cases
// (default: hash of the case input).
func (r *Rec) DistinctKey(s string) {
	h := fnv.New64a()
	h.Write([]byte(s))
	v := h.Sum64()
	r.hashOver = &v
}

// Env is what a property sees of the run.
type Env struct {
	Seed    uint64
	Tier    string // quick | thorough
	Repo    string // /repo
	Scratch string // per-run scratch directory (removed at the end)
	Worker  bool
}

func (e *Env) Quick() bool { return e.Tier != "thorough" }

// Pick returns q for the quick tier and t for thorough.
func (e *Env) Pick(q, t int) int {
	if e.Quick() {
		return q
	}
	return t
}

// Rand returns the PRNG of case i of property id: a pure function of
// (seed, id, i).
func (e *Env) Rand(id string, i int) *Rand {
	h := fnv.New64a()
	h.Write([]byte(id))
	return NewRand(e.Seed*0x9E3779B97F4A7C15 ^ h.Sum64() ^ (uint64(i)+1)*0xBF58476D1CE4E5B9)
}

// Prop is one property's monitor.
type Prop interface {
	ID() string
	// Level is the MANIFEST/EVIDENCE level category.
	Level() string
	// Rule describes generation and the non-trivial/distinct rule (evidence).
	Rule() string
	Assumptions() []string
	// Setup loads corpora etc. It runs in every worker and in the driver.
	Setup(env *Env) error
	// NumCases is the size of the deterministic case list of the tier.
	NumCases() int
	// Case builds case i. Pure function of (seed, tier, i).
	Case(i int) Case
	// Run executes the real code on the case and judges it.
	Run(c Case, r *Rec)
	// Floors returns minimum counts per coverage key (and the pseudo keys
	// "#evaluations", "#nontrivial") below which the run is inconclusive.
	Floors() map[string]int
}

// Exhaustiver is implemented by properties whose case list enumerates a
// finite space completely.
type Exhaustiver interface{ Exhaustive() bool }

// Finisher lets a property add evidence keys after the run (driver side).
type Finisher interface {
	Finish(cover map[string]int, extra map[string]any)
}

// PostRunner is implemented by properties with a second, driver-side phase (batch builds and program runs)
// that consumes what the workers left in the scratch directory.
type PostRunner interface {
	PostRun(env *Env, d *Driver)
}

// CustomRunner is implemented by properties that do not fit the case/worker
// model (program-executing and fault-enumeration checks). The driver calls
// RunCustom instead of sharding cases.
type CustomRunner interface {
	RunCustom(env *Env, d *Driver) error
}

var registry = map[string]Prop{}

func Register(p Prop) { registry[p.ID()] = p }

func Lookup(id string) Prop { return registry[id] }

func IDs() []string {
	var ids []string
	for id := range registry {
		ids = append(ids, id)
	}
	sort.Strings(ids)
	return ids
}

// ---- helpers ----

func ShortHash(b []byte) string {
	s := sha256.Sum256(b)
	return hex.EncodeToString(s[:6])
}

func Quote(b []byte, max int) string {
	if len(b) > max {
		return strconv.Quote(string(b[:max])) + fmt.Sprintf("…(+%d bytes)", len(b)-max)
	}
	return strconv.Quote(string(b))
}

func EnvSeed() uint64 {
	s := os.Getenv("VERIF_SEED")
	if s == "" {
		return 1
	}
	v, err := strconv.ParseInt(s, 10, 64)
	if err != nil {
		return 1
	}
	return uint64(v)
}

func RepoDir() string {
	if d := os.Getenv("VERIF_REPO"); d != "" {
		return d
	}
	return "/repo"
}

func VerifDir() string {
	if d := os.Getenv("VERIF_DIR"); d != "" {
		return d
	}
	return "/verif"
}

func mustJSON(v any) string {
	b, err := json.Marshal(v)
	if err != nil {
		return fmt.Sprintf("{\"marshal_error\":%q}", err.Error())
	}
	return string(b)
}

// SiteFromPanic derives a stable site signature from a recovered panic value
// and a stack trace: the panic text with numbers stripped plus the innermost
// frame that belongs to the repository.
func SiteFromPanic(val any, stack []byte) string {
	msg := fmt.Sprint(val)
	if i := strings.IndexByte(msg, '\n'); i >= 0 {
		msg = msg[:i]
	}
	msg = stripDigits(msg)
	if len(msg) > 80 {
		msg = msg[:80]
	}
	fn := ""
	st := string(stack)
	// start after the innermost panic( frame so that re-panicking deferred functions are not blamed
	if i := strings.LastIndex(st, "\npanic("); i >= 0 {
		st = st[i+1:]
	}
	lines := strings.Split(st, "\n")
	hasRepoFrame := false
	for _, ln := range lines {
		if strings.HasPrefix(ln, "github.com/goplus/xgo/") {
			hasRepoFrame = true
		}
	}
	for _, ln := range lines {
		if !hasRepoFrame && strings.HasPrefix(ln, "github.com/goplus/gogen") {
			// the panic is raised inside the code generator on a tree the compiler handed over
			fn = ln
			if i := strings.LastIndex(fn, "("); i > 0 {
				fn = fn[:i]
			}
			fn = strings.TrimPrefix(fn, "github.com/goplus/")
			break
		}
		if strings.HasPrefix(ln, "github.com/goplus/xgo/") {
			fn = ln
			if i := strings.LastIndex(fn, "("); i > 0 {
				fn = fn[:i]
			}
			fn = strings.TrimPrefix(fn, "github.com/goplus/xgo/")
			break
		}
	}
	return "panic:" + fn + ":" + msg
}

func stripDigits(s string) string {
	var b strings.Builder
	prevDigit := false
	for _, r := range s {
		if r >= '0' && r <= '9' {
			if !prevDigit {
				b.WriteByte('N')
			}
			prevDigit = true
			continue
		}
		prevDigit = false
		b.WriteRune(r)
	}
	return b.String()
}

// NewScratchRec returns a recorder that is not connected to the run (used to probe variants of a case).
func NewScratchRec(c Case) *Rec { return &Rec{cover: map[string]int{}, cur: c} }

// First returns the first recorded violation (site, message).
func (r *Rec) First() (string, string) {
	if len(r.viol) == 0 {
		return "", ""
	}
	return r.viol[0].Site, r.viol[0].Msg
}

// HashString is FNV-1a over s.
func HashString(s string) uint64 {
	h := fnv.New64a()
	h.Write([]byte(s))
	return h.Sum64()
}
