package fw

import (
	"fmt"
	"os"
	"regexp"
	"runtime"
	"strings"
	"time"
)

// StartDeadlockMonitor starts a logical hang oracle for worker processes whose code under test is concurrent.
//
// The Go runtime's own "all goroutines are asleep" detector is disabled in -race builds, so the worker runs this
// equivalent: every 100 ms it takes a stop-the-world snapshot of all goroutine states (runtime.Stack); if every
// goroutine other than the monitor is blocked on a synchronisation primitive (channel, select, mutex, cond,
// wait group) — none running, runnable, in a system call, in network I/O or sleeping on a timer — then no
// goroutine can ever be woken again: this is a deadlock by construction, not a timeout. The monitor then prints
// the runtime's message with the dump and exits, so the driver attributes it to the journalled case.
func StartDeadlockMonitor() {
	go deadlockMonitor()
}

var reGoroutine = regexp.MustCompile(`(?m)^goroutine (\d+) \[([^\]]+)\]:$`)

var blockedForever = map[string]bool{
	"chan receive": true, "chan send": true, "select": true, "select (no cases)": true,
	"sync.Cond.Wait": true, "sync.Mutex.Lock": true, "sync.RWMutex.RLock": true, "sync.RWMutex.Lock": true,
	"sync.WaitGroup.Wait": true, "semacquire": true, "chan receive (nil chan)": true, "chan send (nil chan)": true,
}

func deadlockMonitor() {
	buf := make([]byte, 1<<20)
	strikes := 0
	for {
		time.Sleep(100 * time.Millisecond)
		n := runtime.Stack(buf, true)
		dump := string(buf[:n])
		ms := reGoroutine.FindAllStringSubmatchIndex(dump, -1)
		if len(ms) < 2 {
			strikes = 0
			continue
		}
		all := true
		for i, m := range ms {
			state := dump[m[4]:m[5]]
			if j := strings.Index(state, ","); j >= 0 {
				state = state[:j]
			}
			end := len(dump)
			if i+1 < len(ms) {
				end = ms[i+1][0]
			}
			body := dump[m[0]:end]
			if strings.Contains(body, "fw.deadlockMonitor") {
				continue // the monitor itself
			}
			if !blockedForever[state] {
				all = false
				break
			}
		}
		if !all {
			strikes = 0
			continue
		}
		strikes++
		if strikes < 2 { // two consecutive snapshots: guards against a snapshot taken inside a wake-up hand-off
			continue
		}
		fmt.Fprintf(os.Stderr, "fatal error: all goroutines are asleep - deadlock! (verif monitor: every goroutine is blocked on a synchronisation primitive; no timers, system calls or runnable goroutines)\n\n%s\n", dump)
		os.Exit(2)
	}
}
