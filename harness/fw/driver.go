package fw

import (
	"bufio"
	"encoding/binary"
	"encoding/json"
	"fmt"
	"io"
	"os"
	"os/exec"
	"path/filepath"
	"runtime"
	"sort"
	"strconv"
	"strings"
	"sync"
	"syscall"
	"time"
)

// Driver aggregates a run and writes evidence / replay files.
type Driver struct {
	Prop  Prop
	Env   *Env
	Start time.Time

	mu         sync.Mutex
	Evals      int
	Skipped    int
	SkipWhy    map[string]int
	NonTriv    int
	Cover      map[string]int
	Samples    []any
	Viol       []Violation
	Inconcl    []string
	Extra      map[string]any
	hashes     map[uint64]struct{}
	Known      []KnownFinding
	Distinct   int
	WorkerBin  string // binary to re-exec as worker (default: self)
	NumWorkers int
	CaseTO     time.Duration // wall-clock watchdog per case (inconclusive)
}

type KnownFinding struct {
	Property string
	Site     string
	Desc     string
}

func LoadKnown(path, prop string) []KnownFinding {
	b, err := os.ReadFile(path)
	if err != nil {
		return nil
	}
	var out []KnownFinding
	for _, ln := range strings.Split(string(b), "\n") {
		ln = strings.TrimSpace(ln)
		if !strings.HasPrefix(ln, "known:") {
			continue
		}
		rest := strings.TrimSpace(strings.TrimPrefix(ln, "known:"))
		desc := ""
		if i := strings.Index(rest, " :: "); i >= 0 {
			desc = rest[i+4:]
			rest = rest[:i]
		}
		var kf KnownFinding
		kf.Desc = desc
		// property=<id> site=<sig...> (site may contain spaces; it extends to " :: ")
		if !strings.HasPrefix(rest, "property=") {
			continue
		}
		rest = rest[len("property="):]
		sp := strings.IndexByte(rest, ' ')
		if sp < 0 {
			continue
		}
		kf.Property = rest[:sp]
		rest = strings.TrimSpace(rest[sp:])
		if !strings.HasPrefix(rest, "site=") {
			continue
		}
		kf.Site = strings.TrimSpace(rest[len("site="):])
		if kf.Property == prop {
			out = append(out, kf)
		}
	}
	return out
}

func NewDriver(p Prop, env *Env) *Driver {
	d := &Driver{Prop: p, Env: env, Start: time.Now(),
		SkipWhy: map[string]int{}, Cover: map[string]int{}, Extra: map[string]any{},
		hashes: map[uint64]struct{}{}}
	d.Known = LoadKnown(filepath.Join(VerifDir(), "KNOWN_FINDINGS.txt"), p.ID())
	d.NumWorkers = runtime.NumCPU() - 2
	if d.NumWorkers < 2 {
		d.NumWorkers = 2
	}
	if s := os.Getenv("VERIF_WORKERS"); s != "" {
		if n, err := strconv.Atoi(s); err == nil && n > 0 {
			d.NumWorkers = n
		}
	}
	d.CaseTO = 120 * time.Second
	return d
}

// ---- aggregation (usable by custom runners too) ----

type Agg struct {
	N       int            `json:"n"`
	Skipped map[string]int `json:"skipped,omitempty"`
	NonTriv int            `json:"nontriv"`
	Cover   map[string]int `json:"cover,omitempty"`
	Samples []any          `json:"samples,omitempty"`
	Inconcl []string       `json:"inconcl,omitempty"`
}

func (d *Driver) AddAgg(a *Agg) {
	d.mu.Lock()
	defer d.mu.Unlock()
	d.Evals += a.N
	for k, v := range a.Skipped {
		d.Skipped += v
		d.SkipWhy[k] += v
	}
	d.NonTriv += a.NonTriv
	for k, v := range a.Cover {
		d.Cover[k] += v
	}
	for _, s := range a.Samples {
		if len(d.Samples) < 8 {
			d.Samples = append(d.Samples, s)
		}
	}
	for _, s := range a.Inconcl {
		if len(d.Inconcl) < 20 {
			d.Inconcl = append(d.Inconcl, s)
		}
	}
}

func (d *Driver) AddHash(h uint64) {
	d.mu.Lock()
	d.hashes[h] = struct{}{}
	d.mu.Unlock()
}

func (d *Driver) AddViolation(v Violation) {
	d.mu.Lock()
	d.Viol = append(d.Viol, v)
	d.mu.Unlock()
}

func (d *Driver) Inconclusive(reason string) {
	d.mu.Lock()
	d.Inconcl = append(d.Inconcl, reason)
	d.mu.Unlock()
}

// ---- sharded worker execution ----

type chunk struct{ a, b int }

// RunCases shards [0,n) over workers.
func (d *Driver) RunCases(n int) {
	if n == 0 {
		return
	}
	per := n / (d.NumWorkers * 8)
	if per < 1 {
		per = 1
	}
	if per > 20000 {
		per = 20000
	}
	chunks := make(chan chunk, n/per+2)
	for a := 0; a < n; a += per {
		b := a + per
		if b > n {
			b = n
		}
		chunks <- chunk{a, b}
	}
	close(chunks)
	var wg sync.WaitGroup
	nw := d.NumWorkers
	if nw > n {
		nw = n
	}
	for w := 0; w < nw; w++ {
		wg.Add(1)
		go func(w int) {
			defer wg.Done()
			d.workerLoop(w, chunks)
		}(w)
	}
	wg.Wait()
	// distinct hashes written by workers
	files, _ := filepath.Glob(filepath.Join(d.Env.Scratch, "hashes-*.bin"))
	for _, f := range files {
		b, err := os.ReadFile(f)
		if err != nil {
			continue
		}
		for i := 0; i+8 <= len(b); i += 8 {
			d.hashes[binary.LittleEndian.Uint64(b[i:])] = struct{}{}
		}
		os.Remove(f)
	}
}

type workerProc struct {
	cmd     *exec.Cmd
	in      io.WriteCloser
	out     *bufio.Reader
	errPath string
	lines   chan string
}

func (d *Driver) spawn(w int, gen int) (*workerProc, error) {
	bin := d.WorkerBin
	if bin == "" {
		self, err := os.Executable()
		if err != nil {
			return nil, err
		}
		bin = self
	}
	errPath := filepath.Join(d.Env.Scratch, fmt.Sprintf("worker-%d-%d.stderr", w, gen))
	ef, err := os.Create(errPath)
	if err != nil {
		return nil, err
	}
	cmd := exec.Command(bin, "--worker", d.Prop.ID(), d.Env.Tier, strconv.FormatUint(d.Env.Seed, 10), d.Env.Scratch, fmt.Sprintf("%d-%d", w, gen))
	cmd.Stderr = ef
	cmd.Env = append(os.Environ(), "GOTRACEBACK=all", "VERIF_WORKER=1")
	in, _ := cmd.StdinPipe()
	out, _ := cmd.StdoutPipe()
	if err := cmd.Start(); err != nil {
		ef.Close()
		return nil, err
	}
	ef.Close()
	wp := &workerProc{cmd: cmd, in: in, out: bufio.NewReaderSize(out, 1<<20), errPath: errPath, lines: make(chan string, 1024)}
	go func() {
		for {
			ln, err := wp.out.ReadString('\n')
			if len(ln) > 0 {
				wp.lines <- strings.TrimRight(ln, "\n")
			}
			if err != nil {
				close(wp.lines)
				return
			}
		}
	}()
	return wp, nil
}

func tailFile(path string, max int) string {
	b, err := os.ReadFile(path)
	if err != nil {
		return ""
	}
	if len(b) > max {
		b = b[:max]
	}
	return string(b)
}

func (d *Driver) workerLoop(w int, chunks chan chunk) {
	gen := 0
	var wp *workerProc
	kill := func() {
		if wp != nil {
			wp.in.Close()
			wp.cmd.Process.Kill()
			wp.cmd.Wait()
			os.Remove(wp.errPath)
			wp = nil
		}
	}
	defer kill()
	for ch := range chunks {
		a := ch.a
		for a < ch.b {
			if wp == nil {
				var err error
				gen++
				wp, err = d.spawn(w, gen)
				if err != nil {
					d.Inconclusive("cannot spawn worker: " + err.Error())
					return
				}
			}
			fmt.Fprintf(wp.in, "range %d %d\n", a, ch.b)
			cur := -1
			done := false
			watchdog := false
			timer := time.NewTimer(d.CaseTO + 60*time.Second) // first case includes Setup
		loop:
			for {
				select {
				case ln, ok := <-wp.lines:
					if !ok {
						break loop
					}
					if !timer.Stop() {
						select {
						case <-timer.C:
						default:
						}
					}
					timer.Reset(d.CaseTO)
					switch {
					case strings.HasPrefix(ln, "S "):
						cur, _ = strconv.Atoi(ln[2:])
					case strings.HasPrefix(ln, "V "):
						var v Violation
						if json.Unmarshal([]byte(ln[2:]), &v) == nil {
							d.AddViolation(v)
						}
					case strings.HasPrefix(ln, "D "):
						var ag Agg
						if json.Unmarshal([]byte(ln[2:]), &ag) == nil {
							d.AddAgg(&ag)
						}
					case ln == "E":
						done = true
						break loop
					}
				case <-timer.C:
					// wall-clock watchdog: inconclusive, never a verdict
					wp.cmd.Process.Signal(syscall.SIGQUIT)
					time.Sleep(500 * time.Millisecond)
					dump := tailFile(wp.errPath, 4000)
					c := d.Prop.Case(max(cur, a))
					c.Idx = max(cur, a)
					p := d.writeReplay(Violation{Idx: cur, Site: "watchdog", Msg: "wall-clock watchdog fired\n" + dump, Case: c}, "watchdog")
					d.Inconclusive(fmt.Sprintf("wall-clock watchdog (%s) fired on case %d (replay %s)", d.CaseTO, cur, p))
					kill()
					if cur < a {
						cur = a
					}
					a = cur + 1
					watchdog = true
					break loop
				}
			}
			timer.Stop()
			if watchdog {
				continue
			}
			if done {
				a = ch.b
				continue
			}
			// worker died
			wp.cmd.Wait()
			stderr := tailFile(wp.errPath, 1<<20)
			if cur < a {
				// died before starting a case of this range: setup failure
				d.Inconclusive("worker died before first case: " + firstLines(stderr, 5))
				kill()
				return
			}
			c := d.Prop.Case(cur)
			c.Idx = cur
			site := siteFromCrash(stderr)
			d.AddViolation(Violation{Idx: cur, Site: site, Msg: "worker process died on this case:\n" + firstLines(stderr, 40), Case: c})
			d.AddAgg(&Agg{N: 1, Cover: map[string]int{"#crashed-workers": 1}})
			kill()
			a = cur + 1
		}
	}
}

func firstLines(s string, n int) string {
	ls := strings.SplitN(s, "\n", n+1)
	if len(ls) > n {
		ls = ls[:n]
	}
	return strings.Join(ls, "\n")
}

// siteFromCrash turns the stderr of a dead worker into a site signature.
func siteFromCrash(stderr string) string {
	lines := strings.Split(stderr, "\n")
	head := ""
	for _, ln := range lines {
		if strings.HasPrefix(ln, "panic: ") || strings.HasPrefix(ln, "fatal error: ") || strings.HasPrefix(ln, "runtime: goroutine stack exceeds") {
			head = ln
			if strings.HasPrefix(ln, "runtime: goroutine stack exceeds") {
				head = "fatal error: stack overflow"
			}
			break
		}
	}
	if head == "" {
		for _, ln := range lines {
			if strings.TrimSpace(ln) != "" {
				head = "exit:" + ln
				break
			}
		}
	}
	if head == "" {
		head = "exit:silent"
	}
	head = stripDigits(head)
	if len(head) > 90 {
		head = head[:90]
	}
	fn := ""
	for _, ln := range lines {
		if strings.HasPrefix(ln, "github.com/goplus/xgo/") {
			fn = ln
			if i := strings.LastIndex(fn, "("); i > 0 {
				fn = fn[:i]
			}
			fn = strings.TrimPrefix(fn, "github.com/goplus/xgo/")
			break
		}
	}
	if head == "fatal error: stack overflow" {
		// name the recursion as well: the functions that fill the top of the dumped stack
		if rec := recursingFuncs(lines); rec != "" {
			return "crash:" + head + ":in:" + rec
		}
	}
	return "crash:" + fn + ":" + head
}

// recursingFuncs returns the (at most three, sorted) functions that occur at least five times among the first
// frames of the running goroutine in a stack-overflow dump.
func recursingFuncs(lines []string) string {
	start := -1
	for i, ln := range lines {
		if strings.HasPrefix(ln, "goroutine ") && strings.Contains(ln, "[running]") {
			start = i + 1
			break
		}
	}
	if start < 0 {
		return ""
	}
	count := map[string]int{}
	frames := 0
	for _, ln := range lines[start:] {
		if ln == "" || strings.HasPrefix(ln, "...") || frames >= 48 {
			break
		}
		if strings.HasPrefix(ln, "\t") || strings.HasPrefix(ln, " ") {
			continue
		}
		f := ln
		if i := strings.LastIndex(f, "("); i > 0 {
			f = f[:i]
		}
		f = strings.TrimPrefix(f, "github.com/goplus/xgo/")
		count[f]++
		frames++
	}
	var names []string
	for f, n := range count {
		if n >= 5 {
			names = append(names, f)
		}
	}
	sort.Strings(names)
	if len(names) > 3 {
		names = names[:3]
	}
	return strings.Join(names, "+")
}

// ---- verdict ----

func (d *Driver) replayDir() string { return filepath.Join(VerifDir(), "replays") }

func (d *Driver) writeReplay(v Violation, tag string) string {
	os.MkdirAll(d.replayDir(), 0o755)
	type replay struct {
		Property string `json:"property"`
		Seed     uint64 `json:"seed"`
		Tier     string `json:"tier"`
		Site     string `json:"site"`
		Msg      string `json:"msg"`
		InputQ   string `json:"input_quoted"`
		Case     Case   `json:"case"`
	}
	rp := replay{d.Prop.ID(), d.Env.Seed, d.Env.Tier, v.Site, v.Msg, Quote(v.Case.In, 4000), v.Case}
	b, _ := json.MarshalIndent(rp, "", " ")
	name := fmt.Sprintf("%s-%s.json", d.Prop.ID(), ShortHash([]byte(v.Site+"\x00"+string(v.Case.In)+mustJSON(v.Case.P)+mustJSON(v.Case.Aux))))
	p := filepath.Join(d.replayDir(), name)
	os.WriteFile(p, b, 0o644)
	return p
}

func (d *Driver) isKnown(site string) *KnownFinding {
	for i := range d.Known {
		if d.Known[i].Site == site {
			return &d.Known[i]
		}
	}
	return nil
}

// Finish prints the verdict lines, writes the evidence file and returns the
// process exit code.
func (d *Driver) Finish() int {
	p := d.Prop
	cover := d.Cover
	if f, ok := p.(Finisher); ok {
		f.Finish(cover, d.Extra)
	}
	// classify violations
	sort.Slice(d.Viol, func(i, j int) bool {
		if d.Viol[i].Site != d.Viol[j].Site {
			return d.Viol[i].Site < d.Viol[j].Site
		}
		if len(d.Viol[i].Case.In) != len(d.Viol[j].Case.In) {
			return len(d.Viol[i].Case.In) < len(d.Viol[j].Case.In)
		}
		return d.Viol[i].Idx < d.Viol[j].Idx
	})
	knownSeen := map[string]int{}
	newSites := map[string][]Violation{}
	var siteOrder []string
	for _, v := range d.Viol {
		if kf := d.isKnown(v.Site); kf != nil {
			knownSeen[v.Site]++
			continue
		}
		if _, ok := newSites[v.Site]; !ok {
			siteOrder = append(siteOrder, v.Site)
		}
		newSites[v.Site] = append(newSites[v.Site], v)
	}
	var knownLines []string
	for _, kf := range d.Known {
		if n := knownSeen[kf.Site]; n > 0 {
			desc := kf.Desc
			if len(desc) > 110 {
				desc = desc[:110] + "…"
			}
			ln := fmt.Sprintf("KNOWN-FINDING: property=%s site=%s (%d cases) %s", p.ID(), kf.Site, n, desc)
			knownLines = append(knownLines, ln)
			fmt.Println(ln)
		}
	}
	var replays []string
	verbose := os.Getenv("VERIF_VERBOSE") != ""
	for i, s := range siteOrder {
		v := newSites[s][0] // smallest input of the site
		rp := d.writeReplay(v, "viol")
		replays = append(replays, rp)
		if i >= 15 && !verbose {
			if i == 15 {
				fmt.Printf("  … %d more violation sites (all listed in the evidence file under new_violation_sites; replays written)\n", len(siteOrder)-15)
			}
			continue
		}
		fmt.Printf("VIOLATION property=%s replay=%s\n", p.ID(), rp)
		switch {
		case verbose || i < 6:
			fmt.Printf("  site=%s cases=%d input=%s\n  %s\n", s, len(newSites[s]), Quote(v.Case.In, 200), strings.ReplaceAll(firstLines(v.Msg, 8), "\n", "\n  "))
		default:
			fmt.Printf("  site=%s cases=%d (details in the replay file)\n", s, len(newSites[s]))
		}
	}
	// floors
	d.Distinct = len(d.hashes)
	floors := p.Floors()
	var unmet []string
	keys := make([]string, 0, len(floors))
	for k := range floors {
		keys = append(keys, k)
	}
	sort.Strings(keys)
	for _, k := range keys {
		have := cover[k]
		switch k {
		case "#evaluations":
			have = d.Evals
		case "#nontrivial":
			have = d.Distinct
		}
		if have < floors[k] {
			unmet = append(unmet, fmt.Sprintf("%s=%d<%d", k, have, floors[k]))
		}
	}
	if len(unmet) > 0 {
		d.Inconcl = append(d.Inconcl, "coverage floor not met: "+strings.Join(unmet, " "))
	}
	// evidence
	exh := false
	if e, ok := p.(Exhaustiver); ok {
		exh = e.Exhaustive()
	}
	cov := map[string]any{
		"evaluations":             d.Evals,
		"distinct_nontrivial":     d.Distinct,
		"rule":                    p.Rule(),
		"samples":                 d.Samples,
		"exhaustive":              exh,
		"skipped_out_of_domain":   d.Skipped,
		"skip_reasons":            d.SkipWhy,
		"observed":                cover,
		"floors":                  floors,
		"known_findings_observed": knownLines,
		"new_violation_sites":     siteOrder,
		"inconclusive":            d.Inconcl,
	}
	for k, v := range d.Extra {
		cov[k] = v
	}
	if len(d.Samples) == 0 {
		cov["samples"] = []any{"(no sample recorded)"}
	}
	ev := map[string]any{
		"property_id": p.ID(),
		"tier":        d.Env.Tier,
		"seed":        int64(d.Env.Seed),
		"level":       p.Level(),
		"coverage":    cov,
		"assumptions": p.Assumptions(),
		"wall_s":      time.Since(d.Start).Seconds(),
		"violations":  len(siteOrder),
	}
	os.MkdirAll(filepath.Join(VerifDir(), "evidence"), 0o755)
	b, _ := json.MarshalIndent(ev, "", " ")
	os.WriteFile(filepath.Join(VerifDir(), "evidence", p.ID()+".json"), b, 0o644)

	fmt.Printf("property=%s tier=%s seed=%d evaluations=%d distinct_nontrivial=%d skipped=%d known_sites=%d new_sites=%d wall=%.1fs\n",
		p.ID(), d.Env.Tier, d.Env.Seed, d.Evals, d.Distinct, d.Skipped, len(knownLines), len(siteOrder), time.Since(d.Start).Seconds())
	if len(siteOrder) > 0 {
		return 1
	}
	if len(d.Inconcl) > 0 {
		for _, r := range d.Inconcl {
			fmt.Printf("INCONCLUSIVE property=%s reason=%s\n", p.ID(), r)
		}
		return 2
	}
	return 0
}

// ---- worker side ----

// WorkerMain serves "range a b" requests on stdin.
func WorkerMain(p Prop, env *Env, tag string) {
	if err := p.Setup(env); err != nil {
		fmt.Fprintln(os.Stderr, "setup:", err)
		os.Exit(3)
	}
	out := bufio.NewWriterSize(os.Stdout, 1<<16)
	hf, _ := os.OpenFile(filepath.Join(env.Scratch, "hashes-"+tag+".bin"), os.O_CREATE|os.O_WRONLY|os.O_APPEND, 0o644)
	hw := bufio.NewWriter(hf)
	sc := bufio.NewScanner(os.Stdin)
	for sc.Scan() {
		var a, b int
		if _, err := fmt.Sscanf(sc.Text(), "range %d %d", &a, &b); err != nil {
			continue
		}
		ag := &Agg{Skipped: map[string]int{}, Cover: map[string]int{}}
		flush := func() {
			fmt.Fprintf(out, "D %s\n", mustJSON(ag))
			out.Flush()
			hw.Flush()
			ag = &Agg{Skipped: map[string]int{}, Cover: map[string]int{}}
		}
		for i := a; i < b; i++ {
			c := p.Case(i)
			c.Idx = i
			// journal before running: unbuffered so that a crash is attributable
			out.Flush()
			os.Stdout.WriteString("S " + strconv.Itoa(i) + "\n")
			r := &Rec{cover: ag.Cover, cur: c, samples: &ag.Samples}
			p.Run(c, r)
			ag.N++
			if r.skipped != "" {
				ag.Skipped[r.skipped]++
			} else if r.nontrivial {
				ag.NonTriv++
				h := c.Hash()
				if r.hashOver != nil {
					h = *r.hashOver
				}
				var buf [8]byte
				binary.LittleEndian.PutUint64(buf[:], h)
				hw.Write(buf[:])
			}
			for _, v := range r.viol {
				fmt.Fprintf(out, "V %s\n", mustJSON(v))
			}
			for _, s := range r.inconcl {
				ag.Inconcl = append(ag.Inconcl, fmt.Sprintf("case %d: %s", i, s))
			}
			if ag.N >= 2000 {
				flush()
			}
		}
		flush()
		fmt.Fprintln(out, "E")
		out.Flush()
	}
	hw.Flush()
	hf.Close()
}

// RunOne runs a single case in-process (replay inside a worker).
func RunOne(p Prop, c Case) (viol []Violation, cover map[string]int, skipped string) {
	r := &Rec{cover: map[string]int{}, cur: c}
	p.Run(c, r)
	return r.viol, r.cover, r.skipped
}

// Guard runs f and converts an escaping panic into a violation with a
// site derived from the panic value and the stack.
func Guard(r *Rec, what string, f func()) (panicked bool) {
	defer func() {
		if e := recover(); e != nil {
			buf := make([]byte, 16<<10)
			buf = buf[:runtime.Stack(buf, false)]
			// skip the frames of this function and of panic itself
			st := string(buf)
			if i := strings.LastIndex(st, "\npanic("); i >= 0 {
				st = st[i+1:]
			}
			r.Fail(what+":"+SiteFromPanic(e, []byte(st)), "panic escaped %s: %v\n%s", what, e, firstLines(st, 30))
			panicked = true
		}
	}()
	f()
	return false
}
