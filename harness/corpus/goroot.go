package corpus

import (
	"os/exec"
	"runtime"
	"strings"
)

func runtimeGOROOT() string {
	if out, err := exec.Command("go", "env", "GOROOT").Output(); err == nil {
		return strings.TrimSpace(string(out))
	}
	return runtime.GOROOT()
}
