// Package corpus reads input corpora from /repo at run time (nothing is copied).
package corpus

import (
	"go/ast"
	"go/parser"
	"go/token"
	"os"
	"path/filepath"
	"sort"
	"strconv"
	"strings"
	"sync"
)

type File struct {
	Path  string // relative to repo root
	Src   []byte
	Class bool // class file (parse with ParseGoPlusClass)
}

var (
	once   sync.Once
	xgo    []File
	gof    []File
	snips  []string
	tplg   []File
	repoAt string
)

var classExt = map[string]bool{".gox": true, ".spx": true, ".gmx": true, ".gsh": true, ".tspx": true, ".tgmx": true, ".yap": true}

func load(repo string) {
	repoAt = repo
	var testFiles []string
	filepath.Walk(repo, func(p string, fi os.FileInfo, err error) error {
		if err != nil {
			return nil
		}
		if fi.IsDir() {
			if fi.Name() == ".git" {
				return filepath.SkipDir
			}
			return nil
		}
		rel, _ := filepath.Rel(repo, p)
		ext := filepath.Ext(p)
		switch {
		case ext == ".xgo" || ext == ".gop":
			if b, err := os.ReadFile(p); err == nil {
				xgo = append(xgo, File{rel, b, false})
			}
		case classExt[ext]:
			if b, err := os.ReadFile(p); err == nil {
				xgo = append(xgo, File{rel, b, true})
			}
		case ext == ".go":
			if b, err := os.ReadFile(p); err == nil {
				gof = append(gof, File{rel, b, false})
			}
			if strings.HasSuffix(p, "_test.go") {
				testFiles = append(testFiles, p)
			}
		case ext == ".xgo" || ext == ".gop":
		}
		if ext == ".gop" || ext == ".xgo" || ext == ".expect" || ext == ".go" {
			// tpl grammars: *.gop under tpl/**/_testdata handled below
		}
		return nil
	})
	sort.Slice(xgo, func(i, j int) bool { return xgo[i].Path < xgo[j].Path })
	sort.Slice(gof, func(i, j int) bool { return gof[i].Path < gof[j].Path })
	// harvest string literals of test files
	seen := map[string]bool{}
	sort.Strings(testFiles)
	for _, tf := range testFiles {
		fset := token.NewFileSet()
		f, err := parser.ParseFile(fset, tf, nil, parser.SkipObjectResolution)
		if err != nil {
			continue
		}
		ast.Inspect(f, func(n ast.Node) bool {
			bl, ok := n.(*ast.BasicLit)
			if !ok || bl.Kind != token.STRING {
				return true
			}
			s, err := strconv.Unquote(bl.Value)
			if err != nil || len(s) <= 8 || seen[s] {
				return true
			}
			seen[s] = true
			snips = append(snips, s)
			return true
		})
	}
	// TPL grammars: files named *.gop/*.xgo are XGo; tpl grammars live in tpl/**/_testdata/*/in.xgo? detect below
	filepath.Walk(filepath.Join(repo, "tpl"), func(p string, fi os.FileInfo, err error) error {
		if err != nil || fi.IsDir() {
			return nil
		}
		rel, _ := filepath.Rel(repo, p)
		if strings.Contains(rel, "_testdata") && filepath.Ext(p) != ".expect" {
			if b, err := os.ReadFile(p); err == nil {
				tplg = append(tplg, File{rel, b, false})
			}
		}
		return nil
	})
	sort.Slice(tplg, func(i, j int) bool { return tplg[i].Path < tplg[j].Path })
}

func ensure(repo string) { once.Do(func() { load(repo) }) }

// XGo returns all XGo source and class files of the repository.
func XGo(repo string) []File { ensure(repo); return xgo }

// Go returns all .go files of the repository.
func Go(repo string) []File { ensure(repo); return gof }

// Snippets returns the distinct string literals (>8 bytes) of *_test.go files.
func Snippets(repo string) []string { ensure(repo); return snips }

// TPLFiles returns files under tpl/**/_testdata (grammars and inputs).
func TPLFiles(repo string) []File { ensure(repo); return tplg }

// GoRootFiles returns .go files (non-test) of a few std packages as extra Go corpus.
func GoRootFiles(pkgs ...string) []File {
	root := filepath.Join(goroot(), "src")
	var out []File
	for _, pk := range pkgs {
		ents, err := os.ReadDir(filepath.Join(root, pk))
		if err != nil {
			continue
		}
		for _, e := range ents {
			n := e.Name()
			if e.IsDir() || !strings.HasSuffix(n, ".go") || strings.HasSuffix(n, "_test.go") {
				continue
			}
			if b, err := os.ReadFile(filepath.Join(root, pk, n)); err == nil {
				out = append(out, File{"GOROOT/src/" + pk + "/" + n, b, false})
			}
		}
	}
	return out
}

func goroot() string {
	if g := os.Getenv("GOROOT"); g != "" {
		return g
	}
	// the toolchain that built us
	return runtimeGOROOT()
}
