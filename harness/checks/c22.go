package checks

import (
	"bytes"
	"fmt"
	"strings"

	"github.com/goplus/xgo/ast"
	"github.com/goplus/xgo/parser"
	"github.com/goplus/xgo/printer"
	"github.com/goplus/xgo/token"

	"verif/fw"
	"verif/oracle"
)

// C22 — printing a synthesised tree (no positions, no ParenExpr) preserves its structure.
type c22 struct{ Base }

func init() { fw.Register(&c22{Base: Base{Id: "C22", Lvl: "exploration"}}) }

func (p *c22) Setup(env *fw.Env) error {
	p.Env = env
	p.N = env.Pick(30000, 1200000)
	p.RuleS = "random well-formed expression trees (depth<=5) built directly as xgo/ast nodes without positions and without ParenExpr: all binary operators at all precedence nestings and associativities, unary/star/arrow chains, selector/index/call/slice/type-assert on non-primary operands, composite literals, func literals in call position, XGo nodes (lambda, comprehension with range source, ErrWrap with default, slice literal, env, number-unit); each printed with printer.Fprint as a bare expression, as an expression statement / assignment, and as the condition of if / for / switch. Oracle: the output parses in that context and, after deleting ParenExprs from the re-parsed tree, is shape-equal to the original. Non-trivial = tree with >=4 nodes; distinct by printed text+context."
	p.Assume = []string{"generated trees are well-formed (operands are expressions of the right syntactic class)", "shape comparison ignores positions and parenthesis nodes"}
	p.Floor = map[string]int{"#evaluations": p.N / 2, "#nontrivial": 10000, "roundtrip-ok": p.N / 3, "ctx:expr": 5000, "ctx:stmt": 2000, "ctx:if": 1000, "ctx:for": 1000, "ctx:switch": 1000,
		"node:BinaryExpr": 5000, "node:UnaryExpr": 3000, "node:StarExpr": 1000, "node:SelectorExpr": 1000, "node:IndexExpr": 1000, "node:SliceExpr": 500, "node:CallExpr": 2000, "node:TypeAssertExpr": 500,
		"node:CompositeLit": 1000, "node:FuncLit": 500, "node:SliceLit": 500, "node:LambdaExpr": 500, "node:ComprehensionExpr": 500, "node:ErrWrapExpr": 500, "node:EnvExpr": 300, "node:NumberUnitLit": 300, "node:RangeExpr": 200, "node:KeyValueExpr": 300}
	return nil
}

func (p *c22) Case(i int) fw.Case {
	return fw.Case{Kind: fw.Pick(p.rnd(i), []string{"expr", "expr", "expr", "stmt", "if", "for", "switch"})}
}

type tgen struct{ r *fw.Rand }

var c22BinOps = []token.Token{token.ADD, token.SUB, token.MUL, token.QUO, token.REM, token.AND, token.OR, token.XOR, token.SHL, token.SHR, token.AND_NOT, token.LAND, token.LOR, token.EQL, token.NEQ, token.LSS, token.LEQ, token.GTR, token.GEQ}
var c22UnOps = []token.Token{token.ADD, token.SUB, token.NOT, token.XOR, token.AND, token.ARROW}

func (g *tgen) id() *ast.Ident {
	return ast.NewIdent(fw.Pick(g.r, []string{"a", "b", "c", "x", "y", "f", "T", "p"}))
}

func (g *tgen) lit() ast.Expr {
	switch g.r.Intn(5) {
	case 0:
		return &ast.BasicLit{Kind: token.INT, Value: fw.Pick(g.r, []string{"0", "1", "42"})}
	case 1:
		return &ast.BasicLit{Kind: token.STRING, Value: `"s"`}
	case 2:
		return &ast.BasicLit{Kind: token.FLOAT, Value: "1.5"}
	case 3:
		return &ast.BasicLit{Kind: token.CHAR, Value: "'c'"}
	}
	return g.id()
}

func (g *tgen) expr(d int, xgo bool) ast.Expr {
	r := g.r
	if d <= 0 || r.Chance(1, 5) {
		if r.Bool() {
			return g.id()
		}
		return g.lit()
	}
	n := 14
	if xgo {
		n = 22
	}
	switch r.Intn(n) {
	case 0, 1, 2, 3:
		be := &ast.BinaryExpr{X: g.expr(d-1, xgo), Op: fw.Pick(r, c22BinOps), Y: g.expr(d-1, xgo)}
		if be.Op == token.MUL { // "[n] * T" is an array type: a bracket literal cannot be the left operand of '*'
			for c22LeftmostIsBracket(be.X) || c22RightmostIsBracket(be.X) {
				be.X = g.expr(d-1, xgo)
			}
		}
		return be
	case 4, 5:
		return &ast.UnaryExpr{Op: fw.Pick(r, c22UnOps), X: g.expr(d-1, xgo)}
	case 6:
		return &ast.StarExpr{X: g.expr(d-1, xgo)}
	case 7:
		return &ast.SelectorExpr{X: g.postfixX(d-1, xgo), Sel: g.id()}
	case 8:
		return &ast.IndexExpr{X: g.postfixX(d-1, xgo), Index: g.expr(d-1, xgo)}
	case 9:
		se := &ast.SliceExpr{X: g.postfixX(d-1, xgo)}
		if r.Bool() {
			se.Low = g.beforeColon(d-1, xgo, false)
		}
		if r.Bool() {
			se.High = g.expr(d-1, xgo)
			if r.Chance(1, 3) {
				se.High = g.beforeColon(d-1, xgo, false)
				se.Max = g.expr(d-1, xgo)
				se.Slice3 = true
			}
		}
		return se
	case 10, 11:
		ce := &ast.CallExpr{Fun: g.postfixX(d-1, xgo)}
		if r.Chance(1, 6) {
			ce.Fun = g.funcLit(d-1, xgo)
		}
		for k := r.Intn(3); k > 0; k-- {
			if xgo && r.Chance(1, 5) {
				ce.Args = append(ce.Args, g.lambda(d-1))
			} else {
				ce.Args = append(ce.Args, g.expr(d-1, xgo))
			}
		}
		return ce
	case 12:
		return &ast.TypeAssertExpr{X: g.postfixX(d-1, xgo), Type: fw.Pick(r, []ast.Expr{ast.NewIdent("int"), &ast.StarExpr{X: ast.NewIdent("T")}, &ast.ArrayType{Elt: ast.NewIdent("int")}})}
	case 13:
		cl := &ast.CompositeLit{Type: fw.Pick(r, []ast.Expr{ast.NewIdent("T"), &ast.ArrayType{Elt: ast.NewIdent("int")}, &ast.MapType{Key: ast.NewIdent("string"), Value: ast.NewIdent("int")}})}
		for k := r.Intn(3); k > 0; k-- {
			if _, isT := cl.Type.(*ast.Ident); isT && r.Bool() {
				cl.Elts = append(cl.Elts, &ast.KeyValueExpr{Key: g.id(), Value: g.elem(d-1, xgo, false)})
			} else if _, isMap := cl.Type.(*ast.MapType); isMap {
				cl.Elts = append(cl.Elts, &ast.KeyValueExpr{Key: &ast.BasicLit{Kind: token.STRING, Value: `"k"`}, Value: g.elem(d-1, xgo, false)})
			} else {
				cl.Elts = append(cl.Elts, g.elem(d-1, xgo, false))
			}
		}
		return cl
	// ---- XGo ----
	case 14:
		sl := &ast.SliceLit{}
		for k := r.Intn(4); k > 0; k-- {
			sl.Elts = append(sl.Elts, g.expr(d-1, xgo))
		}
		return sl
	case 15:
		return &ast.SliceLit{Elts: []ast.Expr{g.expr(d-1, xgo)}}
	case 16:
		ce := &ast.ComprehensionExpr{Tok: token.LBRACK, Elt: g.elem(d-1, xgo, false)}
		ce.Fors = []*ast.ForPhrase{g.forPhrase(d-1, xgo)}
		if r.Chance(1, 3) {
			ce.Fors = append(ce.Fors, g.forPhrase(d-1, xgo))
		}
		switch r.Intn(4) {
		case 0:
			ce.Tok = token.LBRACE
			ce.Elt = &ast.KeyValueExpr{Key: g.elem(d-1, xgo, true), Value: g.elem(d-1, xgo, false)}
		case 1:
			ce.Tok = token.LBRACE
		case 2:
			ce.Tok = token.LBRACE
			ce.Elt = nil
		}
		return ce
	case 17:
		ew := &ast.ErrWrapExpr{X: g.postfixX(d-1, xgo), Tok: fw.Pick(r, []token.Token{token.NOT, token.QUESTION})}
		if ew.Tok == token.QUESTION && r.Bool() {
			ew.Default = g.expr(d-1, xgo)
		}
		return ew
	case 18:
		e := &ast.EnvExpr{Name: g.id()}
		if r.Bool() {
			e.Lbrace, e.Rbrace = 1, 2 // HasBrace() is derived from a valid Rbrace
		}
		return e
	case 19:
		return &ast.NumberUnitLit{Kind: token.INT, Value: "10", Unit: fw.Pick(r, []string{"ms", "s", "h"})}
	case 20:
		return g.funcLit(d-1, xgo)
	default:
		return &ast.BasicLit{Kind: token.RAT, Value: "3r"}
	}
}

// postfixX draws the operand of a postfix operation (call, index, slice, selector, type assertion, errwrap):
// not a [..] literal (ambiguous with an array type in front of '(' or '[') and not a numeric literal ("1.x").
func (g *tgen) postfixX(d int, xgo bool) ast.Expr {
	for {
		x := g.expr(d, xgo)
		switch v := x.(type) {
		case *ast.SliceLit, *ast.NumberUnitLit:
			continue
		case *ast.ComprehensionExpr:
			continue
		case *ast.BasicLit:
			if v.Kind != token.STRING {
				continue
			}
		}
		return x
	}
}

// lambda draws a lambda whose results are primary expressions (a result starting with '(' reads as a result tuple).
func (g *tgen) lambda(d int) ast.Expr {
	le := &ast.LambdaExpr{Lhs: []*ast.Ident{g.id()}, Rhs: []ast.Expr{g.lambdaRes(d)}}
	if g.r.Chance(1, 3) {
		le.Lhs = append(le.Lhs, ast.NewIdent("z"))
		le.LhsHasParen = true
	}
	if g.r.Chance(1, 4) {
		le.Rhs = append(le.Rhs, g.lambdaRes(d))
		le.RhsHasParen = true
	}
	return le
}

func (g *tgen) lambdaRes(d int) ast.Expr {
	switch g.r.Intn(4) {
	case 0:
		return &ast.CallExpr{Fun: g.id(), Args: []ast.Expr{g.expr(d-1, true)}}
	case 1:
		return &ast.BinaryExpr{X: g.id(), Op: fw.Pick(g.r, c22BinOps), Y: g.expr(d-1, true)}
	case 2:
		return &ast.SelectorExpr{X: g.id(), Sel: g.id()}
	}
	return g.lit()
}

// elem draws an element of a brace construct: its leftmost operand must not be a brace comprehension
// ("{{…} …" reads as a nested composite literal element).
func (g *tgen) elem(d int, xgo bool, colonAfter bool) ast.Expr {
	for {
		var x ast.Expr
		if colonAfter {
			x = g.beforeColon(d, xgo, false)
		} else {
			x = g.expr(d, xgo)
		}
		if !c22LeftmostIsBrace(x) {
			return x
		}
	}
}

func c22LeftmostIsBrace(x ast.Expr) bool {
	for {
		switch v := x.(type) {
		case *ast.ComprehensionExpr:
			return v.Tok == token.LBRACE
		case *ast.BinaryExpr:
			x = v.X
		case *ast.SelectorExpr:
			x = v.X
		case *ast.IndexExpr:
			x = v.X
		case *ast.SliceExpr:
			x = v.X
		case *ast.CallExpr:
			x = v.Fun
		case *ast.TypeAssertExpr:
			x = v.X
		case *ast.ErrWrapExpr:
			x = v.X
		default:
			return false
		}
	}
}

// c22RightmostIsBracket: the expression's text ends with a bracket literal (which would be followed by '*').
func c22RightmostIsBracket(x ast.Expr) bool {
	for {
		switch v := x.(type) {
		case *ast.SliceLit:
			return true
		case *ast.ComprehensionExpr:
			return v.Tok == token.LBRACK
		case *ast.BinaryExpr:
			x = v.Y
		case *ast.UnaryExpr:
			x = v.X
		case *ast.StarExpr:
			x = v.X
		case *ast.ErrWrapExpr:
			if v.Default == nil {
				return false
			}
			x = v.Default
		default:
			return false
		}
	}
}

func c22LeftmostIsBracket(x ast.Expr) bool {
	for {
		switch v := x.(type) {
		case *ast.SliceLit:
			return true
		case *ast.ComprehensionExpr:
			return v.Tok == token.LBRACK
		case *ast.BinaryExpr:
			x = v.X
		case *ast.SelectorExpr:
			x = v.X
		case *ast.IndexExpr:
			x = v.X
		case *ast.SliceExpr:
			x = v.X
		case *ast.CallExpr:
			x = v.Fun
		case *ast.TypeAssertExpr:
			x = v.X
		case *ast.ErrWrapExpr:
			x = v.X
		default:
			return false
		}
	}
}

// beforeColon draws an expression that is printed directly in front of a ':' (slice bound, key, range part):
// not a bare `x!` / `x?`, whose operator would fuse with the colon into the `?:` / `!:` default syntax.
func (g *tgen) beforeColon(d int, xgo bool, postfix bool) ast.Expr {
	for {
		var x ast.Expr
		if postfix {
			x = g.postfixX(d, xgo)
		} else {
			x = g.expr(d, xgo)
		}
		if c22EndsWithErrWrap(x) {
			continue
		}
		return x
	}
}

func c22EndsWithErrWrap(x ast.Expr) bool {
	for {
		switch v := x.(type) {
		case *ast.ErrWrapExpr:
			if v.Default == nil {
				return true
			}
			x = v.Default
		case *ast.BinaryExpr:
			x = v.Y
		case *ast.UnaryExpr:
			x = v.X
		case *ast.StarExpr:
			x = v.X
		default:
			return false
		}
	}
}

// noBrace draws an expression without composite literals / brace comprehensions / func literals (for filter conditions,
// which like statement headers cannot hold a bare '{').
func (g *tgen) noBrace(d int, xgo bool) ast.Expr {
	for {
		x := g.expr(d, xgo)
		k := map[string]int{}
		oracle.CountNodes(x, k)
		if k["CompositeLit"] == 0 && k["FuncLit"] == 0 && k["ComprehensionExpr"] == 0 && k["LambdaExpr"] == 0 {
			return x
		}
	}
}

func (g *tgen) funcLit(d int, xgo bool) ast.Expr {
	ft := &ast.FuncType{Params: &ast.FieldList{}}
	if g.r.Bool() {
		ft.Params.List = []*ast.Field{{Names: []*ast.Ident{ast.NewIdent("v")}, Type: ast.NewIdent("int")}}
	}
	body := &ast.BlockStmt{}
	if g.r.Bool() {
		ft.Results = &ast.FieldList{List: []*ast.Field{{Type: ast.NewIdent("int")}}}
		body.List = []ast.Stmt{&ast.ReturnStmt{Results: []ast.Expr{g.expr(d, xgo)}}}
	}
	return &ast.FuncLit{Type: ft, Body: body}
}

func (g *tgen) forPhrase(d int, xgo bool) *ast.ForPhrase {
	fp := &ast.ForPhrase{Value: g.id()}
	if g.r.Chance(1, 3) {
		fp.Key = ast.NewIdent("k")
	}
	if g.r.Chance(1, 3) {
		re := &ast.RangeExpr{Last: g.postfixX(d, xgo)}
		if g.r.Bool() {
			re.First = g.beforeColon(d, xgo, true)
		}
		if g.r.Chance(1, 3) {
			re.Last = g.beforeColon(d, xgo, true)
			re.Expr3 = g.postfixX(d, xgo)
		}
		fp.X = re
	} else {
		fp.X = g.expr(d, xgo)
	}
	if g.r.Bool() {
		fp.Cond = g.noBrace(d, xgo)
	}
	return fp
}

func (p *c22) Run(c fw.Case, r *fw.Rec) {
	rnd := p.rnd(c.Idx)
	g := &tgen{r: rnd}
	xgo := rnd.Chance(2, 3)
	x := g.expr(rnd.Range(1, 4), xgo)
	kinds := map[string]int{}
	n := oracle.CountNodes(x, kinds)
	var node any = x
	var wrap func(printed string) string
	var extract func(f *ast.File) any
	ctx := c.Kind
	body := func(f *ast.File) []ast.Stmt {
		if len(f.Decls) == 0 {
			return nil
		}
		fd, ok := f.Decls[len(f.Decls)-1].(*ast.FuncDecl)
		if !ok || fd.Body == nil {
			return nil
		}
		return fd.Body.List
	}
	switch ctx {
	case "expr":
	case "stmt":
		var st ast.Stmt
		switch rnd.Intn(3) {
		case 0:
			st = &ast.AssignStmt{Lhs: []ast.Expr{ast.NewIdent("v")}, Tok: token.DEFINE, Rhs: []ast.Expr{x}}
		case 1:
			st = &ast.ReturnStmt{Results: []ast.Expr{x}}
		default:
			st = &ast.ExprStmt{X: &ast.CallExpr{Fun: ast.NewIdent("g"), Args: []ast.Expr{x}}}
		}
		node = st
	case "if":
		node = &ast.IfStmt{Cond: x, Body: &ast.BlockStmt{}}
	case "for":
		node = &ast.ForStmt{Cond: x, Body: &ast.BlockStmt{}}
	case "switch":
		node = &ast.SwitchStmt{Tag: x, Body: &ast.BlockStmt{}}
	}
	if ctx != "expr" {
		wrap = func(s string) string { return "package p\n\nfunc _() {\n" + s + "\n}\n" }
		extract = func(f *ast.File) any {
			if b := body(f); len(b) == 1 {
				return b[0]
			}
			return nil
		}
	}
	var buf bytes.Buffer
	var err error
	if fw.Guard(r, "printer.Fprint", func() { err = printer.Fprint(&buf, token.NewFileSet(), node) }) {
		return
	}
	r.Cover("ctx:" + ctx)
	for k := range kinds {
		r.Cover("node:" + k)
	}
	if err != nil {
		r.Fail("print:error", "printer.Fprint failed on a well-formed %T: %v", node, err)
		return
	}
	printed := buf.String()
	var back any
	var perr error
	if ctx == "expr" {
		if fw.Guard(r, "parser.ParseExpr", func() { back, perr = parser.ParseExpr(printed) }) {
			return
		}
	} else {
		var f *ast.File
		if fw.Guard(r, "parser.ParseFile", func() { f, perr = parser.ParseFile(token.NewFileSet(), "a.xgo", wrap(printed), 0) }) {
			return
		}
		if perr == nil {
			back = extract(f)
			if back == nil {
				perr = fmt.Errorf("printed statement did not parse back to exactly one statement")
			}
		}
	}
	top := oracle.Kind(x)
	if perr != nil {
		site := "print:output-does-not-parse:" + c22Culprit(x, nil, ctx)
		if ctx == "if" || ctx == "for" || ctx == "switch" {
			if alone := c22RoundTripsAlone(x); alone {
				braces := []string{}
				if kinds["CompositeLit"] > 0 {
					braces = append(braces, "CompositeLit")
				}
				if kinds["ComprehensionExpr"] > 0 {
					braces = append(braces, "ComprehensionExpr")
				}
				if kinds["FuncLit"] > 0 && len(braces) == 0 {
					braces = append(braces, "FuncLit")
				}
				site = "print:brace-expression-in-statement-header-needs-parentheses:" + strings.Join(braces, "+")
			}
		}
		r.Fail(site, "printed %s %q does not parse in context %s: %v\ntree: %s", top, printed, ctx, perr, c22Shape(x, 6))
		return
	}
	if d := oracle.ShapeDiff(node, back, oracle.ShapeOpts{IgnoreParens: true, IgnoreFields: map[string]bool{"LhsHasParen": true, "RhsHasParen": true, "NoParenEnd": true}}); d != "" {
		r.Fail("print:tree-changed:"+c22Culprit(x, back, ctx), "printed %q re-parses to a different tree: %s\noriginal tree: %s", printed, d, c22Shape(x, 6))
		return
	}
	r.Cover("roundtrip-ok")
	if n >= 4 {
		r.NonTrivial()
		r.DistinctKey(ctx + "|" + printed)
		if n >= 6 && len(printed) < 120 {
			r.Sample(map[string]string{"context": ctx, "printed": printed, "tree": c22Shape(x, 4)})
		}
	}
}

// c22Shape renders the node kinds of a tree down to depth d: BinaryExpr(+)[Ident UnaryExpr(-)[…]]
func c22Shape(n oracle.Node, d int) string {
	k := oracle.Kind(n)
	switch x := n.(type) {
	case *ast.BinaryExpr:
		k += "(" + x.Op.String() + ")"
	case *ast.UnaryExpr:
		k += "(" + x.Op.String() + ")"
	case *ast.ErrWrapExpr:
		k += "(" + x.Tok.String() + ")"
	}
	if d <= 0 {
		return k
	}
	kids := oracle.Children(n, oracle.WalkOpts{})
	if len(kids) == 0 {
		return k
	}
	var parts []string
	for _, c := range kids {
		parts = append(parts, c22Shape(c, d-1))
	}
	return k + "[" + strings.Join(parts, " ") + "]"
}

// c22Culprit names the smallest sub-tree (parent kind > child kind) whose isolated printing already fails to round-trip.
func c22Culprit(x ast.Expr, back any, ctx string) string {
	best := ""
	bestSize := 1 << 30
	oracle.Walk(x, oracle.WalkOpts{}, func(n oracle.Node, _ int) bool {
		e, ok := n.(ast.Expr)
		if !ok {
			return true
		}
		switch n.(type) {
		case *ast.KeyValueExpr, *ast.RangeExpr, *ast.ForPhrase, *ast.ElemEllipsis:
			return true // not expressions on their own
		}
		size := oracle.CountNodes(n, nil)
		if size >= bestSize || size < 2 {
			return true
		}
		var buf bytes.Buffer
		bad := false
		func() {
			defer func() {
				if recover() != nil {
					bad = true
				}
			}()
			if printer.Fprint(&buf, token.NewFileSet(), e) != nil {
				bad = true
				return
			}
			b, err := parser.ParseExpr(buf.String())
			if err != nil || oracle.ShapeDiff(e, b, oracle.ShapeOpts{IgnoreParens: true, IgnoreFields: map[string]bool{"LhsHasParen": true, "RhsHasParen": true, "NoParenEnd": true}}) != "" {
				bad = true
			}
		}()
		if bad {
			best, bestSize = c22Brief(n), size
		}
		return true
	})
	if best == "" {
		return ctx + ":" + c22Brief(x)
	}
	return best
}

// c22Brief names a node by its kind and the distinct non-leaf kinds of its direct children.
func c22Brief(n oracle.Node) string {
	k := oracle.Kind(n)
	seen := map[string]bool{}
	var kids []string
	for _, c := range oracle.Children(n, oracle.WalkOpts{}) {
		ck := oracle.Kind(c)
		if ck == "Ident" || ck == "BasicLit" || seen[ck] {
			continue
		}
		seen[ck] = true
		kids = append(kids, ck)
	}
	sortStrings(kids)
	return k + "[" + strings.Join(kids, ",") + "]"
}

func c22RoundTripsAlone(e ast.Expr) (ok bool) {
	defer func() {
		if recover() != nil {
			ok = false
		}
	}()
	var buf bytes.Buffer
	if printer.Fprint(&buf, token.NewFileSet(), e) != nil {
		return false
	}
	b, err := parser.ParseExpr(buf.String())
	return err == nil && oracle.ShapeDiff(e, b, oracle.ShapeOpts{IgnoreParens: true, IgnoreFields: map[string]bool{"LhsHasParen": true, "RhsHasParen": true, "NoParenEnd": true}}) == ""
}
