package checks

// DebugCompile exposes the in-process compile helper to cmd/xgoc (debugging aid, not used by checks).
func DebugCompile(repo string, files map[string]string, fileLine bool) (out []byte, errs []string, panicV any, stack string) {
	res := compileXGo(repo, files, compileOpts{FileLine: fileLine, GenMain: true})
	if res.ParseErr != nil {
		errs = append(errs, "parse: "+res.ParseErr.Error())
	}
	return res.Out, append(errs, res.ErrList...), res.Panic, res.Stack
}

// DebugSmart runs the Go -> XGo style conversion.
func DebugSmart(src []byte) ([]byte, error) { return xformatDebug(src) }
