package checks

import (
	"sync"

	"github.com/goplus/xgo/ast"
	"github.com/goplus/xgo/parser"
	"github.com/goplus/xgo/token"

	"verif/corpus"
	"verif/fw"
)

type srcItem struct {
	Name  string
	Src   []byte
	Class bool
}

var (
	poolOnce  sync.Once
	poolAll   []srcItem // corpus XGo files + harvested snippets (not filtered)
	poolValid []srcItem // the subset that parses without error (comments on)
)

func parseXGo(fset *token.FileSet, it srcItem, mode parser.Mode) (*ast.File, error) {
	if it.Class {
		mode |= parser.ParseGoPlusClass
	}
	name := it.Name
	if name == "" {
		name = "a.xgo"
	}
	return parser.ParseFile(fset, name, it.Src, mode)
}

// safeParse parses and converts an escaping panic into an error.
func safeParse(it srcItem, mode parser.Mode) (f *ast.File, fset *token.FileSet, err error, panicked any) {
	fset = token.NewFileSet()
	defer func() {
		if e := recover(); e != nil {
			panicked = e
		}
	}()
	f, err = parseXGo(fset, it, mode)
	return
}

func loadPool(env *fw.Env) {
	poolOnce.Do(func() {
		for _, f := range corpus.XGo(env.Repo) {
			poolAll = append(poolAll, srcItem{f.Path, f.Src, f.Class})
		}
		for _, s := range corpus.Snippets(env.Repo) {
			poolAll = append(poolAll, srcItem{"", []byte(s), false})
		}
		for _, it := range poolAll {
			f, _, err, pk := safeParse(it, parser.ParseComments)
			if pk == nil && err == nil && f != nil {
				poolValid = append(poolValid, it)
			}
		}
	})
}

// xgoPool returns all candidate XGo sources (unfiltered).
func xgoPool(env *fw.Env) []srcItem { loadPool(env); return poolAll }

// validXGoPool returns the sources that parse without error.
func validXGoPool(env *fw.Env) []srcItem { loadPool(env); return poolValid }
