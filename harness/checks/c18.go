package checks

import (
	"fmt"
	gotoken "go/token"
	"reflect"
	"sort"
	"strings"

	"github.com/goplus/xgo/ast"
	"github.com/goplus/xgo/token"

	"verif/fw"
	"verif/oracle"
)

// C18 — AST traversal visits every node exactly once (reference traversal by reflection).
type c18 struct {
	Base
	nPool int
}

func init() { fw.Register(&c18{Base: Base{Id: "C18", Lvl: "exploration"}}) }

// every node type of package ast (zero values; used for reflect.Type only)
var c18NodeTypes = []ast.Node{
	&ast.Comment{}, &ast.CommentGroup{}, &ast.Field{}, &ast.FieldList{},
	&ast.BadExpr{}, &ast.Ident{}, &ast.Ellipsis{}, &ast.BasicLit{}, &ast.FuncLit{}, &ast.CompositeLit{}, &ast.ParenExpr{}, &ast.SelectorExpr{},
	&ast.IndexExpr{}, &ast.IndexListExpr{}, &ast.SliceExpr{}, &ast.TypeAssertExpr{}, &ast.CallExpr{}, &ast.StarExpr{}, &ast.UnaryExpr{}, &ast.BinaryExpr{}, &ast.KeyValueExpr{},
	&ast.ArrayType{}, &ast.StructType{}, &ast.FuncType{}, &ast.InterfaceType{}, &ast.MapType{}, &ast.ChanType{},
	&ast.BadStmt{}, &ast.DeclStmt{}, &ast.EmptyStmt{}, &ast.LabeledStmt{}, &ast.ExprStmt{}, &ast.SendStmt{}, &ast.IncDecStmt{}, &ast.AssignStmt{}, &ast.GoStmt{}, &ast.DeferStmt{},
	&ast.ReturnStmt{}, &ast.BranchStmt{}, &ast.BlockStmt{}, &ast.IfStmt{}, &ast.CaseClause{}, &ast.SwitchStmt{}, &ast.TypeSwitchStmt{}, &ast.CommClause{}, &ast.SelectStmt{}, &ast.ForStmt{}, &ast.RangeStmt{},
	&ast.ImportSpec{}, &ast.ValueSpec{}, &ast.TypeSpec{}, &ast.BadDecl{}, &ast.GenDecl{}, &ast.FuncDecl{}, &ast.File{},
	&ast.OverloadFuncDecl{}, &ast.DomainTextLit{}, &ast.NumberUnitLit{}, &ast.EnvExpr{}, &ast.SliceLit{}, &ast.MatrixLit{}, &ast.ElemEllipsis{}, &ast.ErrWrapExpr{},
	&ast.LambdaExpr{}, &ast.LambdaExpr2{}, &ast.RangeExpr{}, &ast.ForPhrase{}, &ast.ComprehensionExpr{}, &ast.ForPhraseStmt{},
}

func (p *c18) Setup(env *fw.Env) error {
	p.Env = env
	p.nPool = len(validXGoPool(env))
	p.N = p.nPool + len(c18NodeTypes)*8 + env.Pick(4000, 120000)
	p.RuleS = fmt.Sprintf("(a) every repository XGo/class file and harvested test snippet that parses (%d), (b) for each of the %d node types of package ast, 8 synthesised trees rooted at that type with all child fields populated by reflection, (c) generated XGo / class / Go files and comment-injected / re-spaced variants. Oracle: an independent reflection-based enumeration of child nodes (never ast.Walk) gives the expected event stream Visit(n), children…, Visit(nil); for parsed trees children are ordered by source position (siblings in source order), for synthesised trees the multiset of children per parent and the nil protocol are compared. Documented exceptions encoded: a shadow-entry FuncDecl exposes only Body; File.Name is skipped when the file has no package clause. Inspect is checked against the same stream. Non-trivial = tree with >=10 nodes; distinct by source / synthesised root+seed.", p.nPool, len(c18NodeTypes))
	p.Assume = []string{"child = any exported field (also inside StringLitEx / DomainTextLitEx / []any parts) holding an ast.Node, except resolver data (Obj, Scope, Unresolved), File.Imports/Comments/ShadowEntry (duplicates) and embedded TPL grammar files"}
	p.Floor = map[string]int{"#evaluations": p.N / 2, "#nontrivial": 1000, "parsed-trees": 1000, "synth-trees": len(c18NodeTypes) * 4}
	for _, n := range c18NodeTypes {
		k := oracle.Kind(n)
		if k == "BadStmt" || k == "BadDecl" || k == "BadExpr" || k == "IndexListExpr" {
			p.Floor["visited:"+k] = 1
		} else {
			p.Floor["visited:"+k] = 3
		}
	}
	return nil
}

func (p *c18) Case(i int) fw.Case {
	if i < p.nPool {
		return fw.Case{Kind: "corpus", P: map[string]string{"i": fmt.Sprint(i)}}
	}
	i -= p.nPool
	if i < len(c18NodeTypes)*8 {
		return fw.Case{Kind: "synth", P: map[string]string{"type": fmt.Sprint(i / 8), "v": fmt.Sprint(i % 8)}}
	}
	r := p.rnd(i)
	it, kind := astSource(p.Env, r, 1<<30)
	c := fw.Case{Kind: kind, In: it.Src}
	if it.Class {
		c.P = map[string]string{"class": "1"}
	}
	return c
}

type walkEv struct {
	n ast.Node // nil for Visit(nil)
}

type c18Visitor struct {
	ev    *[]ast.Node
	limit int
}

func (v c18Visitor) Visit(n ast.Node) ast.Visitor {
	*v.ev = append(*v.ev, n)
	if len(*v.ev) > v.limit {
		panic("c18: visit limit exceeded (cyclic traversal?)")
	}
	return v
}

// expected children per the property (independent of walk.go)
func c18Children(n ast.Node) []oracle.Node {
	switch x := n.(type) {
	case *ast.FuncDecl:
		if x.Shadow {
			if x.Body != nil {
				return []oracle.Node{x.Body}
			}
			return nil
		}
	case *ast.File:
		kids := oracle.Children(n, oracle.WalkOpts{Comments: true})
		if x.NoPkgDecl {
			var out []oracle.Node
			for _, k := range kids {
				if id, ok := k.(*ast.Ident); ok && id == x.Name {
					continue
				}
				out = append(out, k)
			}
			return out
		}
		return kids
	case *ast.Package:
		return nil
	}
	return oracle.Children(n, oracle.WalkOpts{Comments: true})
}

func c18Expected(n ast.Node, sorted bool, out *[]ast.Node, budget *int) {
	*out = append(*out, n)
	*budget--
	if *budget < 0 {
		return
	}
	kids := c18Children(n)
	if sorted {
		// go/ast convention: a FuncDecl's FuncType reports the "func" keyword as its Pos although its text
		// (the signature) follows the receiver and the name; order it by its first parameter list.
		key := func(k oracle.Node) gotoken.Pos {
			if ft, ok := k.(*ast.FuncType); ok {
				if _, isDecl := n.(*ast.FuncDecl); isDecl {
					if ft.TypeParams != nil {
						return ft.TypeParams.Pos()
					}
					if ft.Params != nil {
						return ft.Params.Pos()
					}
				}
			}
			return k.Pos()
		}
		// a child without a valid position (synthetic receiver of `func .New()`) stays where field order puts it
		keys := make(map[oracle.Node]gotoken.Pos, len(kids))
		var last gotoken.Pos
		for _, k := range kids {
			kp := key(k)
			if !kp.IsValid() {
				kp = last
			}
			keys[k] = kp
			last = kp
		}
		sort.SliceStable(kids, func(i, j int) bool { return keys[kids[i]] < keys[kids[j]] })
	}
	for _, k := range kids {
		c18Expected(k.(ast.Node), sorted, out, budget)
	}
	*out = append(*out, nil)
}

func c18Name(n ast.Node) string {
	if n == nil {
		return "nil"
	}
	s := oracle.Kind(n)
	if id, ok := n.(*ast.Ident); ok {
		s += ":" + id.Name
	}
	if p := n.Pos(); p.IsValid() {
		s += fmt.Sprintf("@%d", p)
	}
	return s
}

func (p *c18) Run(c fw.Case, r *fw.Rec) {
	var root ast.Node
	sorted := true
	switch c.Kind {
	case "synth":
		var ti, v int
		fmt.Sscan(c.P["type"], &ti)
		fmt.Sscan(c.P["v"], &v)
		rnd := fw.NewRand(uint64(ti*131 + v + 7))
		sy := &synth{r: rnd}
		root = sy.node(reflect.TypeOf(c18NodeTypes[ti%len(c18NodeTypes)]), 0).(ast.Node)
		sorted = false
		r.Cover("synth-trees")
	case "corpus":
		var i int
		fmt.Sscan(c.P["i"], &i)
		f, _, ok := parseValid(validXGoPool(p.Env)[i])
		if !ok {
			r.Skip("corpus-item-no-longer-parses")
			return
		}
		root = f
		r.Cover("parsed-trees")
	default:
		f, _, ok := parseValid(srcItem{Src: c.In, Class: c.P["class"] == "1"})
		if !ok {
			r.Skip("generated-invalid")
			return
		}
		root = f
		r.Cover("parsed-trees")
	}
	var want []ast.Node
	budget := 2000000
	c18Expected(root, sorted, &want, &budget)
	var got []ast.Node
	if fw.Guard(r, "ast.Walk", func() { ast.Walk(c18Visitor{&got, len(want)*2 + 100}, root) }) {
		return
	}
	for _, n := range want {
		if n != nil {
			r.Cover("visited:" + oracle.Kind(n))
		}
	}
	if sorted {
		for k := 0; k < len(want) || k < len(got); k++ {
			var w, g ast.Node
			if k < len(want) {
				w = want[k]
			}
			if k < len(got) {
				g = got[k]
			}
			if w != g {
				parent := "?"
				// find the innermost open node in want
				depth := 0
				for j := k - 1; j >= 0; j-- {
					if want[j] == nil {
						depth++
					} else if depth == 0 {
						parent = oracle.Kind(want[j])
						break
					} else {
						depth--
					}
				}
				site := "walk:order-or-missing-child:" + parent
				r.Fail(site, "event #%d of ast.Walk differs inside a %s: got %s, reference traversal (children in source order) expects %s\ncontext got:  %s\ncontext want: %s", k, parent, c18Name(g), c18Name(w), c18Ctx(got, k), c18Ctx(want, k))
				return
			}
		}
	} else {
		// synthesised trees: per parent, the multiset of children and the nil protocol
		if msg, parent := c18CompareUnordered(want, got); msg != "" {
			r.Fail("walk:children-differ:"+parent, "synthesised tree rooted at %s: %s", oracle.Kind(root), msg)
			return
		}
	}
	// Inspect must produce the same stream
	var got2 []ast.Node
	if fw.Guard(r, "ast.Inspect", func() {
		ast.Inspect(root, func(n ast.Node) bool { got2 = append(got2, n); return true })
	}) {
		return
	}
	if len(got2) != len(got) {
		r.Fail("inspect:differs-from-walk", "Inspect produced %d events, Walk %d", len(got2), len(got))
		return
	}
	for k := range got {
		if got[k] != got2[k] {
			r.Fail("inspect:differs-from-walk", "Inspect event #%d differs from Walk", k)
			return
		}
	}
	if len(want) >= 20 {
		r.NonTrivial()
		if c.Kind != "synth" && len(c.In) > 0 && len(c.In) < 200 {
			r.Sample(map[string]any{"src": string(c.In), "events": len(want)})
		}
	}
	_ = strings.TrimSpace
	_ = token.NoPos
	_ = gotoken.NoPos
}

func c18Ctx(ev []ast.Node, k int) string {
	lo, hi := k-3, k+3
	if lo < 0 {
		lo = 0
	}
	if hi > len(ev) {
		hi = len(ev)
	}
	var parts []string
	for j := lo; j < hi; j++ {
		s := c18Name(ev[j])
		if j == k {
			s = ">>" + s + "<<"
		}
		parts = append(parts, s)
	}
	return strings.Join(parts, " ")
}

// c18CompareUnordered checks that both event streams are well-nested and that every node has the same set of children.
func c18CompareUnordered(want, got []ast.Node) (string, string) {
	build := func(ev []ast.Node) (map[ast.Node][]ast.Node, string) {
		kids := map[ast.Node][]ast.Node{}
		var stack []ast.Node
		seen := map[ast.Node]bool{}
		for i, n := range ev {
			if n == nil {
				if len(stack) == 0 {
					return nil, fmt.Sprintf("Visit(nil) #%d without an open node", i)
				}
				stack = stack[:len(stack)-1]
				continue
			}
			if seen[n] {
				return nil, fmt.Sprintf("node %s visited twice", c18Name(n))
			}
			seen[n] = true
			if len(stack) > 0 {
				p := stack[len(stack)-1]
				kids[p] = append(kids[p], n)
			}
			stack = append(stack, n)
		}
		if len(stack) != 0 {
			return nil, fmt.Sprintf("%d nodes never closed with Visit(nil)", len(stack))
		}
		return kids, ""
	}
	wk, msg := build(want)
	if msg != "" {
		return "reference stream malformed: " + msg, "harness"
	}
	gk, msg := build(got)
	if msg != "" {
		return msg, "protocol"
	}
	for _, n := range want {
		if n == nil {
			continue
		}
		a, b := wk[n], gk[n]
		set := map[ast.Node]int{}
		for _, x := range a {
			set[x]++
		}
		for _, x := range b {
			set[x]--
		}
		for x, d := range set {
			if d > 0 {
				return fmt.Sprintf("child %s of %s is never visited", c18Name(x), c18Name(n)), oracle.Kind(n)
			}
			if d < 0 {
				return fmt.Sprintf("%s is visited as child of %s but is not one", c18Name(x), c18Name(n)), oracle.Kind(n)
			}
		}
	}
	return "", ""
}

// ---- reflection-based tree synthesiser ----

type synth struct {
	r *fw.Rand
	n int
}

var (
	tExpr = reflect.TypeOf((*ast.Expr)(nil)).Elem()
	tStmt = reflect.TypeOf((*ast.Stmt)(nil)).Elem()
	tDecl = reflect.TypeOf((*ast.Decl)(nil)).Elem()
	tSpec = reflect.TypeOf((*ast.Spec)(nil)).Elem()
	tNode = reflect.TypeOf((*ast.Node)(nil)).Elem()
)

func (s *synth) ident() *ast.Ident { s.n++; return &ast.Ident{Name: fmt.Sprintf("v%d", s.n)} }

func (s *synth) pickType(iface reflect.Type) reflect.Type {
	var cands []reflect.Type
	for _, n := range c18NodeTypes {
		t := reflect.TypeOf(n)
		if t.Implements(iface) {
			k := t.Elem().Name()
			if k == "File" || k == "Package" {
				continue
			}
			cands = append(cands, t)
		}
	}
	return cands[s.r.Intn(len(cands))]
}

// node builds an instance of pointer type t with every node-valued field populated.
func (s *synth) node(t reflect.Type, depth int) any {
	v := reflect.New(t.Elem())
	s.fill(v.Elem(), depth)
	return v.Interface()
}

func (s *synth) value(t reflect.Type, depth int) reflect.Value {
	switch t.Kind() {
	case reflect.Interface:
		switch {
		case t == tExpr || t == tStmt || t == tDecl || t == tSpec || t == tNode:
			if depth >= 3 {
				switch t {
				case tStmt:
					return reflect.ValueOf(&ast.ExprStmt{X: s.ident()})
				case tDecl:
					return reflect.ValueOf(&ast.GenDecl{Tok: token.VAR, Specs: []ast.Spec{&ast.ValueSpec{Names: []*ast.Ident{s.ident()}}}})
				case tSpec:
					return reflect.ValueOf(&ast.ValueSpec{Names: []*ast.Ident{s.ident()}})
				}
				return reflect.ValueOf(s.ident())
			}
			return reflect.ValueOf(s.node(s.pickType(t), depth+1))
		case t.NumMethod() == 0: // any (Extra)
			return reflect.Zero(t)
		}
	case reflect.Ptr:
		if t.Implements(tNode) {
			if depth >= 4 && t.Elem().Name() != "Ident" && t.Elem().Name() != "BlockStmt" && t.Elem().Name() != "FieldList" && t.Elem().Name() != "FuncType" && t.Elem().Name() != "CallExpr" && t.Elem().Name() != "BasicLit" && t.Elem().Name() != "ForPhrase" {
				return reflect.Zero(t)
			}
			return reflect.ValueOf(s.node(t, depth+1))
		}
		if t.Elem().Kind() == reflect.Struct && strings.HasSuffix(t.Elem().PkgPath(), "xgo/ast") {
			nv := reflect.New(t.Elem())
			s.fill(nv.Elem(), depth+1)
			return nv
		}
	case reflect.Slice:
		et := t.Elem()
		if et.Kind() == reflect.Uint8 {
			return reflect.Zero(t)
		}
		n := s.r.Range(1, 2)
		if depth >= 3 {
			n = 1
		}
		sl := reflect.MakeSlice(t, 0, n)
		for i := 0; i < n; i++ {
			var ev reflect.Value
			if et.Kind() == reflect.Interface && et.NumMethod() == 0 {
				// []any parts: alternate strings and expressions
				if i%2 == 0 {
					ev = reflect.ValueOf(s.ident()).Convert(reflect.TypeOf((*ast.Ident)(nil)))
					x := reflect.New(et).Elem()
					x.Set(ev)
					ev = x
				} else {
					x := reflect.New(et).Elem()
					x.Set(reflect.ValueOf("txt"))
					ev = x
				}
			} else {
				ev = s.value(et, depth+1)
			}
			if ev.IsValid() && !(ev.Kind() == reflect.Ptr && ev.IsNil()) {
				sl = reflect.Append(sl, ev)
			}
		}
		return sl
	case reflect.String:
		return reflect.ValueOf("s").Convert(t)
	}
	return reflect.Zero(t)
}

func (s *synth) fill(v reflect.Value, depth int) {
	t := v.Type()
	for i := 0; i < t.NumField(); i++ {
		f := t.Field(i)
		if !f.IsExported() {
			continue
		}
		switch f.Name {
		case "Obj", "Scope", "Unresolved", "Code", "Imports", "Comments", "ShadowEntry", "Shadow", "NoPkgDecl", "IsClass", "IsProj", "IsNormalGox", "Operator", "Static":
			continue
		}
		fv := v.Field(i)
		if fv.Kind() == reflect.Int && f.Type.Name() == "Token" {
			continue
		}
		if f.Name == "Extra" && f.Type.Kind() == reflect.Interface && t.Name() == "DomainTextLit" {
			ex := &ast.DomainTextLitEx{Args: []ast.Expr{s.ident(), s.ident()}, Raw: "raw"}
			fv.Set(reflect.ValueOf(ex))
			continue
		}
		nv := s.value(f.Type, depth)
		if nv.IsValid() && nv.Type().AssignableTo(f.Type) {
			fv.Set(nv)
		}
	}
}
