package checks

import (
	"fmt"
	"strings"

	"verif/fw"
)

// C10 — overloaded functions dispatch on argument types.
type c10 struct {
	Base
}

func init() { fw.Register(&c10{Base: Base{Id: "C10", Lvl: "exploration"}}) }

func (p *c10) Setup(env *fw.Env) error {
	p.Env = env
	xgocWarm(env)
	p.N = env.Pick(40, 1500)
	p.RuleS = "each case is an XGo program with 6 generated overload sets of 2-4 (one set in six: 11-13) candidates with pairwise different parameter tuples (1-2 parameters over int, string, float64, bool, []int, map[string]int, *foo, foo, byte, int64, error, func()), written as inline function literals, as named functions (`func f = (a; b)`), as a mix of both, as methods (`func (T).m = ((T).a; (T).b)`) or as an operator set mixing methods and a function (`func (T).* = (…)`), the candidates listed in a random order. Every candidate prints its own tag; for every candidate the program makes a call whose arguments are variables of exactly that candidate's parameter types (plus calls with untyped literals that only one candidate accepts). The harness knows which candidate each call must reach (reference model: exact type match) and compares the printed tags per tagged line."
	p.Assume = []string{"arguments are typed variables or literals only one candidate accepts, so that 'the candidate whose parameters accept the arguments' is unique", "the operator form mixes methods and one function as documented; style mixed-literals-and-named mixes inline literals and named functions in one declaration (as the repository's TestOverloadFunc3 does)"}
	p.Floor = map[string]int{"#evaluations": p.N * 9 / 10, "#nontrivial": p.N * 8 / 10, "programs-executed": p.N * 8 / 10, "stdout-lines-compared": p.N * 12, "style:inline-literals": p.N / 2, "style:named-functions": p.N / 2, "style:methods": p.N / 2, "style:operator": p.N / 2, "style:mixed-literals-and-named": p.N / 2, "candidates:4": p.N / 3, "candidates:more-than-ten": p.N / 3, "order:not-declaration-order": p.N * 2}
	return nil
}

func (p *c10) Case(i int) fw.Case { return fw.Case{Kind: "overloads"} }

type c10ty struct{ name, arg, lit string }

var c10Types = []c10ty{
	{"int", "vi", ""}, {"string", "vs", `"lit"`}, {"float64", "vf", "1.5"}, {"bool", "vb", "true"},
	{"[]int", "vl", ""}, {"map[string]int", "vm", ""}, {"*foo", "vp", ""}, {"foo", "vo", ""},
	{"byte", "vby", ""}, {"int64", "v64", ""}, {"error", "ve", ""}, {"func()", "vfn", ""},
}

const c10Prelude = `import "errors"

type foo struct{ n int }

var (
	vi  int            = 3
	vs  string         = "s"
	vf  float64        = 2.5
	vb  bool           = true
	vl  []int          = [1, 2]
	vm  map[string]int = {"a": 1}
	vp  *foo           = &foo{1}
	vo  foo            = foo{2}
	vby byte           = 7
	v64 int64          = 1 << 40
	ve  error          = errors.new("e")
	vfn func()         = func() {}
)

`

func (p *c10) Run(c fw.Case, r *fw.Rec) {
	pairWorker(p.Env, p.Id, c, r, p.build(c, r))
}

func (p *c10) build(c fw.Case, r *fw.Rec) pairBuild {
	rnd := p.rnd(c.Idx)
	var src, body, want strings.Builder
	src.WriteString(c10Prelude)
	for k := 0; k < 6; k++ {
		style := fw.Pick(rnd, []string{"inline-literals", "named-functions", "methods", "operator", "mixed-literals-and-named"})
		r.Cover("style:" + style)
		if style == "operator" {
			p.operatorSet(rnd, k, &src, &body, &want, r)
			continue
		}
		nc := rnd.Range(2, 4)
		if rnd.Chance(1, 6) {
			nc = rnd.Range(11, 13) // more candidates than decimal digits (the generated names use one character per index)
			r.Cover("candidates:more-than-ten")
		}
		r.Cover(fmt.Sprintf("candidates:%d", nc))
		// distinct parameter tuples
		var tuples [][]c10ty
		seen := map[string]bool{}
		for len(tuples) < nc {
			n := rnd.Range(1, 2)
			var t []c10ty
			key := ""
			for i := 0; i < n; i++ {
				ty := fw.Pick(rnd, c10Types)
				t = append(t, ty)
				key += ty.name + ","
			}
			if !seen[key] {
				seen[key] = true
				tuples = append(tuples, t)
			}
		}
		order := rnd.Perm(nc)
		inOrder := true
		for i, o := range order {
			if i != o {
				inOrder = false
			}
		}
		if !inOrder {
			r.Cover("order:not-declaration-order")
		}
		tag := fmt.Sprintf("overload/%s/%d-candidates", style, nc)
		params := func(t []c10ty) string {
			var ps []string
			for i, ty := range t {
				ps = append(ps, fmt.Sprintf("p%d %s", i, ty.name))
			}
			return strings.Join(ps, ", ")
		}
		name := fmt.Sprintf("ov%d", k)
		switch style {
		case "inline-literals":
			fmt.Fprintf(&src, "func %s = (\n", name)
			for _, ci := range order {
				fmt.Fprintf(&src, "\tfunc(%s) int {\n\t\techo \"%s:\", %d, \"candidate\", %d\n\t\treturn %d\n\t}\n", params(tuples[ci]), tag, k, ci, ci)
			}
			src.WriteString(")\n\n")
		case "named-functions":
			for ci := range tuples {
				fmt.Fprintf(&src, "func %sC%d(%s) int {\n\techo \"%s:\", %d, \"candidate\", %d\n\treturn %d\n}\n\n", name, ci, params(tuples[ci]), tag, k, ci, ci)
			}
			fmt.Fprintf(&src, "func %s = (\n", name)
			for _, ci := range order {
				fmt.Fprintf(&src, "\t%sC%d\n", name, ci)
			}
			src.WriteString(")\n\n")
		case "mixed-literals-and-named":
			// named functions and inline literals in one declaration, in the drawn order
			lit := map[int]bool{}
			for ci := range tuples {
				if rnd.Bool() {
					lit[ci] = true
				} else {
					fmt.Fprintf(&src, "func %sC%d(%s) int {\n\techo \"%s:\", %d, \"candidate\", %d\n\treturn %d\n}\n\n", name, ci, params(tuples[ci]), tag, k, ci, ci)
				}
			}
			fmt.Fprintf(&src, "func %s = (\n", name)
			for _, ci := range order {
				if lit[ci] {
					fmt.Fprintf(&src, "\tfunc(%s) int {\n\t\techo \"%s:\", %d, \"candidate\", %d\n\t\treturn %d\n\t}\n", params(tuples[ci]), tag, k, ci, ci)
				} else {
					fmt.Fprintf(&src, "\t%sC%d\n", name, ci)
				}
			}
			src.WriteString(")\n\n")
		case "methods":
			fmt.Fprintf(&src, "type T%d struct{}\n\n", k)
			for ci := range tuples {
				fmt.Fprintf(&src, "func (t *T%d) m%dC%d(%s) int {\n\techo \"%s:\", %d, \"candidate\", %d\n\treturn %d\n}\n\n", k, k, ci, params(tuples[ci]), tag, k, ci, ci)
			}
			fmt.Fprintf(&src, "func (T%d).%s = (\n", k, name)
			for _, ci := range order {
				fmt.Fprintf(&src, "\t(T%d).m%dC%d\n", k, k, ci)
			}
			src.WriteString(")\n\n")
			fmt.Fprintf(&body, "\tt%d := &T%d{}\n", k, k)
		}
		callee := name
		if style == "methods" {
			callee = fmt.Sprintf("t%d.%s", k, name)
		}
		for ci, t := range tuples {
			var args []string
			for _, ty := range t {
				args = append(args, ty.arg)
			}
			fmt.Fprintf(&body, "\techo \"%s:\", %d, \"returned\", %s(%s)\n", tag, k, callee, strings.Join(args, ", "))
			fmt.Fprintf(&want, "%s: %d candidate %d\n%s: %d returned %d\n", tag, k, ci, tag, k, ci)
			// a call with untyped literals, if no other candidate of the same arity could take them
			lits, ok := []string{}, true
			for _, ty := range t {
				if ty.lit == "" {
					ok = false
				}
				lits = append(lits, ty.lit)
			}
			// ("lit", 1.5 and true are accepted by string, float64 and bool parameters only, and the tuples differ)
			if ok {
				r.Cover("call:untyped-literals")
				fmt.Fprintf(&body, "\techo \"%s:\", %d, \"returned\", %s(%s)\n", tag, k, callee, strings.Join(lits, ", "))
				fmt.Fprintf(&want, "%s: %d candidate %d\n%s: %d returned %d\n", tag, k, ci, tag, k, ci)
			}
		}
	}
	src.WriteString("func main() {\n" + body.String() + "}\n")
	exp := want.String()
	return pairBuild{
		XGo:    map[string]string{"main.xgo": src.String()},
		Expect: &exp,
		Info:   map[string]string{"linetags": "1"},
	}
}

// operatorSet: `func (V).op = ((V).withInt; (V).withV; intWithV)` in a random order; a op 10, a op b, 10 op a.
func (p *c10) operatorSet(rnd *fw.Rand, k int, src, body, want *strings.Builder, r *fw.Rec) {
	op := fw.Pick(rnd, []string{"*", "+", "-", "/", "%"})
	tag := "overload/operator/3-candidates"
	r.Cover("candidates:3")
	fmt.Fprintf(src, "type V%d struct{ n int }\n\n", k)
	fmt.Fprintf(src, "func (a V%d) opInt%d(b int) V%d {\n\techo \"%s:\", %d, \"candidate\", 0\n\treturn V%d{a.n + b}\n}\n\n", k, k, k, tag, k, k)
	fmt.Fprintf(src, "func (a V%d) opV%d(b V%d) V%d {\n\techo \"%s:\", %d, \"candidate\", 1\n\treturn V%d{a.n + b.n}\n}\n\n", k, k, k, k, tag, k, k)
	fmt.Fprintf(src, "func intOpV%d(a int, b V%d) V%d {\n\techo \"%s:\", %d, \"candidate\", 2\n\treturn V%d{a + b.n}\n}\n\n", k, k, k, tag, k, k)
	cands := []string{fmt.Sprintf("(V%d).opInt%d", k, k), fmt.Sprintf("(V%d).opV%d", k, k), fmt.Sprintf("intOpV%d", k)}
	order := rnd.Perm(3)
	if order[0] != 0 || order[1] != 1 {
		r.Cover("order:not-declaration-order")
	}
	fmt.Fprintf(src, "func (V%d).%s = (\n", k, op)
	for _, ci := range order {
		fmt.Fprintf(src, "\t%s\n", cands[ci])
	}
	src.WriteString(")\n\n")
	fmt.Fprintf(body, "\ta%d, b%d := V%d{1}, V%d{2}\n", k, k, k, k)
	fmt.Fprintf(body, "\techo \"%s:\", %d, \"returned\", (a%d %s 10).n\n", tag, k, k, op)
	fmt.Fprintf(body, "\techo \"%s:\", %d, \"returned\", (a%d %s b%d).n\n", tag, k, k, op, k)
	fmt.Fprintf(body, "\techo \"%s:\", %d, \"returned\", (10 %s a%d).n\n", tag, k, op, k)
	fmt.Fprintf(body, "\techo \"%s:\", %d, \"returned\", (a%d %s vi).n\n", tag, k, k, op)
	fmt.Fprintf(want, "%s: %d candidate 0\n%s: %d returned 11\n", tag, k, tag, k)
	fmt.Fprintf(want, "%s: %d candidate 1\n%s: %d returned 3\n", tag, k, tag, k)
	fmt.Fprintf(want, "%s: %d candidate 2\n%s: %d returned 11\n", tag, k, tag, k)
	fmt.Fprintf(want, "%s: %d candidate 0\n%s: %d returned 4\n", tag, k, tag, k)
}

func (p *c10) PostRun(env *fw.Env, d *fw.Driver) {
	pairPostRun(env, d, p.Id, nil)
}
