package checks

import (
	"fmt"
	goast "go/ast"
	goparser "go/parser"
	gotoken "go/token"
	"go/types"
	"reflect"
	"sort"
	"strings"

	"github.com/goplus/mod/xgomod"
	"github.com/goplus/xgo/ast"
	"github.com/goplus/xgo/parser"
	"github.com/goplus/xgo/token"
	"github.com/goplus/xgo/x/typesutil"

	"verif/fw"
	"verif/gen"
	"verif/oracle"
)

// C12 — recorded type information obeys its documented invariants.
type c12 struct {
	Base
	pool []srcItem
}

func init() { fw.Register(&c12{Base: Base{Id: "C12", Lvl: "exploration"}}) }

func (p *c12) Setup(env *fw.Env) error {
	p.Env = env
	xgocWarm(env)
	p.pool = xgoPool(env)
	p.N = env.Pick(700, 20000)
	p.RuleS = "each case is one file checked through x/typesutil.Checker.Files with all Info maps allocated: generated Go-compatible programs (C01 generator) saved as XGo, the XGo sugar programs of C02/C03/C04/C05/C10, and repository XGo files/snippets that check without error. Invariants judged on every Info map after the check: Defs[id] == nil || Defs[id].Pos() == id.Pos(); Uses[id] != nil && Uses[id].Pos() != id.Pos(); every key of Types, Scopes, Defs, Uses, Selections, Implicits and Overloads is a node of the checked file (pointer identity against an independent reflection walk of the parsed file). For the Go-compatible programs the same bytes are parsed by go/parser and checked by go/types, and for every identifier (matched by byte offset) the recorded object must agree in name, kind (var/field/func/method/type/const/package/builtin/nil/label) and type string, and an identifier recorded on one side must be recorded on the other."
	p.Assume = []string{"go/types is the reference for Go-compatible text", "files the checker reports errors for are out of the domain (counted)"}
	p.Floor = map[string]int{"#evaluations": p.N * 9 / 10, "#nontrivial": p.N / 2, "kind:go-compatible": p.N / 4, "kind:sugar": p.N / 6, "defs-checked": p.N * 10, "uses-checked": p.N * 30, "types-keys-checked": p.N * 50, "scopes-keys-checked": p.N * 5, "identifiers-compared-with-go/types": p.N * 20}
	return nil
}

func (p *c12) Case(i int) fw.Case {
	r := p.rnd(i)
	switch r.Intn(10) {
	case 0, 1, 2, 3:
		return fw.Case{Kind: "go-compatible"}
	case 4, 5, 6:
		return fw.Case{Kind: "sugar", P: map[string]string{"g": fmt.Sprint(r.Intn(5))}}
	default:
		return fw.Case{Kind: "corpus", P: map[string]string{"i": fmt.Sprint(r.Intn(len(p.pool)))}}
	}
}

func (p *c12) source(c fw.Case) (name, src string) {
	r := p.rnd(c.Idx)
	sub := fw.Case{Idx: c.Idx}
	rec := fw.NewScratchRec(sub)
	switch c.Kind {
	case "go-compatible":
		g := &gen.GoGen{R: r}
		src := g.Program(r.Range(1, 4))
		// package-level declarations that come after the functions using them (loaded on demand in the middle of
		// a function body), multi-name specs sharing a name with a local
		late := "\nfunc useRedecl() int {\n\tvar e error\n\tn, e := strconv.Atoi(\"7\")\n\tm, e := strconv.Atoi(\"8\")\n\t_ = e\n\tfor i, e := 0, error(nil); i < 1; i++ {\n\t\t_ = e\n\t}\n\treturn n + m\n}\n\nfunc useLate() int {\n\tlateB := \"local\"\n\t_ = lateB\n\treturn lateA + len(lateC) + lateK + int(lateT(2)) + lateF()\n}\n"
		src = strings.Replace(src, "func main() {", late+"\nfunc main() {\n\t_ = useLate() + useRedecl()", 1)
		src += "\nvar lateA, lateB = 3, 4\n\nvar lateC = \"late\"\n\nconst lateK, lateL = 7, \"l\"\n\ntype lateT int\n\nfunc lateF() int { return lateB + len(lateL) }\n"
		// embedded fields: by value, by pointer, and a qualified pointer type; the field object is declared at the type name
		src += "\ntype embBase struct {\n\tN int\n}\n\ntype embPlain struct {\n\tembBase\n}\n\ntype embWrap struct {\n\t*embBase\n\tname string\n}\n\ntype embQual struct {\n\t*strconv.NumError\n\tembPlain\n}\n\nfunc useEmb() int {\n\tw := embWrap{embBase: &embBase{N: 1}, name: \"w\"}\n\tq := embQual{NumError: &strconv.NumError{Func: \"f\"}}\n\treturn w.N + q.N + len(q.Func) + len(w.name) + embPlain{}.N\n}\n"
		src = strings.Replace(src, "_ = useLate() + useRedecl()", "_ = useLate() + useRedecl() + useEmb()", 1)
		return "main.xgo", src
	case "sugar":
		switch c.P["g"] {
		case "0":
			return "main.xgo", (&c02{Base: Base{Id: "C02", Env: p.Env}}).build(sub, rec).XGo["main.xgo"]
		case "1":
			return "main.xgo", (&c03{Base: Base{Id: "C03", Env: p.Env}}).build(fw.Case{Idx: c.Idx, Kind: "scenarios"}, rec).XGo["main.xgo"] + c06InlineHelper
		case "2":
			return "main.xgo", (&c04{Base: Base{Id: "C04", Env: p.Env}}).build(sub, rec).XGo["main.xgo"]
		case "3":
			return "main.xgo", (&c05{Base: Base{Id: "C05", Env: p.Env}}).build(sub, rec).XGo["main.xgo"]
		default:
			return "main.xgo", (&c10{Base: Base{Id: "C10", Env: p.Env}}).build(sub, rec).XGo["main.xgo"]
		}
	default:
		var i int
		fmt.Sscan(c.P["i"], &i)
		it := p.pool[i%len(p.pool)]
		if it.Class {
			return "main.gox", string(it.Src)
		}
		return "main.xgo", string(it.Src)
	}
}

func objKind(o types.Object) string {
	switch v := o.(type) {
	case *types.Var:
		if v.IsField() {
			return "field"
		}
		return "var"
	case *types.Func:
		if sig, ok := v.Type().(*types.Signature); ok && sig.Recv() != nil {
			return "method"
		}
		return "func"
	case *types.TypeName:
		return "type"
	case *types.Const:
		return "const"
	case *types.PkgName:
		return "package"
	case *types.Builtin:
		return "builtin"
	case *types.Nil:
		return "nil"
	case *types.Label:
		return "label"
	}
	return fmt.Sprintf("%T", o)
}

func objDesc(o types.Object) string {
	if o == nil {
		return "<nil>"
	}
	q := func(p *types.Package) string { return p.Name() }
	ty := "<no type>"
	if o.Type() != nil {
		ty = types.TypeString(o.Type(), q)
	}
	return objKind(o) + " " + o.Name() + " " + ty
}

func (p *c12) Run(c fw.Case, r *fw.Rec) {
	name, src := p.source(c)
	r.Cover("kind:" + c.Kind)
	xgocInit(p.Env.Repo)
	fset := token.NewFileSet()
	f, err := parser.ParseEntry(fset, "/p/"+name, src, parser.Config{Mode: parser.ParseComments})
	if err != nil {
		r.Skip("does-not-parse")
		return
	}
	info := &typesutil.Info{
		Types:      make(map[ast.Expr]types.TypeAndValue),
		Instances:  make(map[*ast.Ident]types.Instance),
		Defs:       make(map[*ast.Ident]types.Object),
		Uses:       make(map[*ast.Ident]types.Object),
		Implicits:  make(map[ast.Node]types.Object),
		Selections: make(map[*ast.SelectorExpr]*types.Selection),
		Scopes:     make(map[ast.Node]*types.Scope),
		Overloads:  make(map[*ast.Ident]types.Object),
	}
	conf := &types.Config{Importer: xgocImp, Error: func(error) {}}
	var nerr int
	conf.Error = func(error) { nerr++ }
	chk := typesutil.NewChecker(conf, &typesutil.Config{Types: types.NewPackage("main", f.Name.Name), Fset: fset, Mod: xgomod.Default}, nil, info)
	var cerr error
	if fw.Guard(r, "typesutil.Checker.Files", func() { cerr = chk.Files(nil, []*ast.File{f}) }) {
		return
	}
	if cerr != nil || nerr > 0 {
		r.Skip("checker-reports-errors")
		return
	}
	r.NonTrivial()
	r.DistinctKey(src)
	// the nodes of the checked file: an independent reflection walk, united with the repository's own ast.Inspect
	nodes := map[any]bool{}
	type span struct {
		a, b token.Pos
		kind string
	}
	var real []span     // every real node (for naming the construct a foreign node sits in)
	var embedded []span // literals parsed by a sub-parser (interpolated strings, domain text): their inner nodes belong to the file
	oracle.Walk(f, oracle.WalkOpts{Comments: true}, func(n oracle.Node, depth int) bool {
		nodes[n] = true
		real = append(real, span{n.Pos(), n.End(), oracle.Kind(n)})
		switch v := n.(type) {
		case *ast.BasicLit:
			if v.Extra != nil {
				embedded = append(embedded, span{v.Pos(), v.End(), "StringLitEx"})
			}
		case *ast.DomainTextLit:
			embedded = append(embedded, span{v.Pos(), v.End(), "DomainTextLit"})
		}
		return true
	})
	ast.Inspect(f, func(n ast.Node) bool {
		if n != nil {
			nodes[n] = true
		}
		return true
	})
	if f.ShadowEntry != nil {
		ast.Inspect(f.ShadowEntry, func(n ast.Node) bool {
			if n != nil {
				nodes[n] = true
			}
			return true
		})
	}
	constructs := map[string]bool{"ForPhraseStmt": true, "RangeStmt": true, "ForPhrase": true, "ComprehensionExpr": true, "ErrWrapExpr": true, "LambdaExpr": true, "LambdaExpr2": true, "SendStmt": true, "OverloadFuncDecl": true, "RangeExpr": true, "SliceLit": true, "CallExpr": true, "FuncDecl": true, "GenDecl": true}
	foreign := func(which string, n any) {
		if nodes[n] {
			return
		}
		nn, ok := n.(oracle.Node)
		if !ok || reflect.ValueOf(n).IsNil() {
			r.Fail("nil-key-in-"+which, "%s has a nil key", which)
			return
		}
		for _, e := range embedded {
			if nn.Pos() >= e.a && nn.End() <= e.b {
				r.Cover("nodes-inside-embedded-literals")
				return
			}
		}
		// name the site after the smallest real XGo construct the synthetic node sits in
		in := "without-position"
		if nn.Pos().IsValid() {
			in = "File"
			best := token.Pos(1 << 40)
			for _, sp := range real {
				if constructs[sp.kind] && sp.a <= nn.Pos() && nn.Pos() < sp.b && sp.b-sp.a < best {
					best, in = sp.b-sp.a, sp.kind
				}
			}
		}
		pos := fset.Position(nn.Pos())
		r.Cover("foreign-node-in-" + which)
		r.Fail("foreign-node:synthesized-inside-"+in, "%s has a key (%s at %v, %q) that is not a node of the checked file", which, oracle.Kind(n), pos, clipS(srcSlice(src, fset, nn), 60))
	}
	// struct types of the file: a misplaced field object there is a different site from the class-file var block
	var structSpans [][2]token.Pos
	func() {
		defer func() { recover() }()
		ast.Inspect(f, func(n ast.Node) bool {
			if st, ok := n.(*ast.StructType); ok {
				structSpans = append(structSpans, [2]token.Pos{st.Pos(), st.End()})
			}
			return true
		})
	}()
	for id, obj := range info.Defs {
		r.Cover("defs-checked")
		foreign("Defs", id)
		if obj != nil && obj.Pos() != id.Pos() {
			kind := objKind(obj)
			if kind == "field" {
				for _, sp := range structSpans {
					if sp[0] <= id.Pos() && id.Pos() < sp[1] {
						kind = "field:in-struct-type"
						break
					}
				}
			}
			r.Fail("defs-position-invariant:"+kind, "Defs[%s at %v] = %s declared at %v: Defs[id].Pos() != id.Pos()", id.Name, fset.Position(id.Pos()), objDesc(obj), fset.Position(obj.Pos()))
		}
	}
	for id, obj := range info.Uses {
		r.Cover("uses-checked")
		foreign("Uses", id)
		if obj == nil {
			r.Fail("uses-nil-object", "Uses[%s at %v] is nil", id.Name, fset.Position(id.Pos()))
		} else if obj.Pos() == id.Pos() && obj.Pos() != token.NoPos {
			r.Fail("uses-position-invariant:"+objKind(obj), "Uses[%s at %v] = %s is declared at the identifier's own position", id.Name, fset.Position(id.Pos()), objDesc(obj))
		}
	}
	for e := range info.Types {
		r.Cover("types-keys-checked")
		foreign("Types", e)
	}
	for n := range info.Scopes {
		r.Cover("scopes-keys-checked")
		foreign("Scopes", n)
	}
	for n := range info.Selections {
		foreign("Selections", n)
	}
	for n := range info.Implicits {
		foreign("Implicits", n)
	}
	for n := range info.Overloads {
		foreign("Overloads", n)
	}
	if c.Kind != "go-compatible" {
		return
	}
	// ---- agreement with go/types on the same bytes ----
	gfset := gotoken.NewFileSet()
	gf, err := goparser.ParseFile(gfset, "/p/main.go", src, goparser.SkipObjectResolution)
	if err != nil {
		r.Skip("go-parser-rejects")
		return
	}
	ginfo := &types.Info{Defs: map[*goast.Ident]types.Object{}, Uses: map[*goast.Ident]types.Object{}}
	gconf := types.Config{Importer: xgocImp}
	if _, err := gconf.Check("main", gfset, []*goast.File{gf}, ginfo); err != nil {
		r.Skip("go/types-rejects")
		return
	}
	type rec struct {
		def  bool
		desc string
		name string
	}
	xoff := func(p token.Pos) int { return fset.Position(p).Offset }
	goff := func(p gotoken.Pos) int { return gfset.Position(p).Offset }
	xg := map[int]rec{}
	for id, o := range info.Defs {
		if o != nil {
			xg[xoff(id.Pos())] = rec{true, objDesc(o), id.Name}
		}
	}
	for id, o := range info.Uses {
		if o != nil {
			xg[xoff(id.Pos())] = rec{false, objDesc(o), id.Name}
		}
	}
	gg := map[int]rec{}
	for id, o := range ginfo.Defs {
		if o != nil {
			gg[goff(id.Pos())] = rec{true, objDesc(o), id.Name}
		}
	}
	for id, o := range ginfo.Uses {
		if o != nil {
			gg[goff(id.Pos())] = rec{false, objDesc(o), id.Name}
		}
	}
	// syntactic context of identifiers (for site naming)
	ctxOf := map[int]string{}
	goast.Inspect(gf, func(n goast.Node) bool {
		if as, ok := n.(*goast.AssignStmt); ok && as.Tok == gotoken.DEFINE {
			for _, l := range as.Lhs {
				if id, ok := l.(*goast.Ident); ok && id.Name != "_" {
					ctxOf[goff(id.Pos())] = ":left-of-define"
				}
			}
		}
		return true
	})
	offs := make([]int, 0, len(gg))
	for o := range gg {
		offs = append(offs, o)
	}
	sort.Ints(offs)
	for _, o := range offs {
		g := gg[o]
		x, ok := xg[o]
		r.Cover("identifiers-compared-with-go/types")
		switch {
		case !ok:
			what := "use"
			if g.def {
				what = "definition"
			}
			if g.name == "_" {
				what = "blank-" + what
			}
			r.Fail("identifier-not-recorded:"+what+"-of-"+strings.Fields(g.desc)[0]+ctxOf[o], "go/types records %s `%s` (%s) at offset %d (line %d); typesutil records nothing for it", what, g.name, g.desc, o, 1+strings.Count(src[:o], "\n"))
		case x.def != g.def:
			r.Fail("def-use-confusion:"+strings.Fields(g.desc)[0]+ctxOf[o], "identifier `%s` at offset %d: go/types def=%v, typesutil def=%v", g.name, o, g.def, x.def)
		case x.desc != g.desc:
			if c12SameModuloAliases(g.desc, x.desc) {
				continue
			}
			r.Fail("object-differs:"+c12DiffClass(g.desc, x.desc), "identifier `%s` at offset %d (line %d):\n  go/types : %s\n  typesutil: %s", g.name, o, 1+strings.Count(src[:o], "\n"), g.desc, x.desc)
		}
	}
	for o, x := range xg {
		if _, ok := gg[o]; !ok {
			r.Fail("identifier-recorded-only-by-typesutil:"+strings.Fields(x.desc)[0], "typesutil records `%s` (%s) at offset %d (line %d); go/types records nothing there", x.name, x.desc, o, 1+strings.Count(src[:o], "\n"))
		}
	}
}

var c12Aliases = strings.NewReplacer("rune", "int32", "byte", "uint8", "any", "interface{}")

// c12SameModuloAliases: go/types prints the predeclared aliases by name (rune, byte, any).
func c12SameModuloAliases(g, x string) bool {
	return c12Aliases.Replace(g) == c12Aliases.Replace(x)
}

// c12DiffClass names how the two records differ.
func c12DiffClass(g, x string) string {
	gf, xf := strings.Fields(g), strings.Fields(x)
	if len(gf) < 3 || len(xf) < 3 {
		return "shape"
	}
	if gf[0] != xf[0] {
		return "kind:" + gf[0] + "-recorded-as-" + xf[0]
	}
	if gf[1] != xf[1] {
		return "name:" + gf[0]
	}
	gt, xt := strings.Join(gf[2:], " "), strings.Join(xf[2:], " ")
	switch {
	case strings.HasPrefix(gt, "untyped") != strings.HasPrefix(xt, "untyped"):
		return "type:" + gf[0] + ":untyped-vs-typed"
	case strings.HasPrefix(gt, "main.") && !strings.HasPrefix(xt, "main."):
		return "type:" + gf[0] + ":named-type-recorded-as-its-underlying-type"
	}
	return "type:" + gf[0] + ":other"
}

func srcSlice(src string, fset *token.FileSet, n oracle.Node) string {
	a, b := fset.Position(n.Pos()).Offset, fset.Position(n.End()).Offset
	if a >= 0 && b <= len(src) && a <= b {
		return src[a:b]
	}
	return ""
}

var _ = reflect.TypeOf
