package checks

import (
	"strings"

	"github.com/goplus/xgo/ast"
	"github.com/goplus/xgo/parser"
	"github.com/goplus/xgo/scanner"
	"github.com/goplus/xgo/token"

	"verif/fw"
	"verif/gen"
)

// astSource draws one candidate valid XGo source for the AST/format monitors:
// corpus file or harvested snippet, generated XGo/class/Go file, or a
// comment-injected / re-spaced variant of one of those.
func astSource(env *fw.Env, r *fw.Rand, idx int) (it srcItem, kind string) {
	pool := validXGoPool(env)
	if idx < len(pool) {
		return pool[idx], "corpus"
	}
	g := &gen.XSyn{R: r}
	switch r.Intn(10) {
	case 0, 1:
		it, kind = fw.Pick(r, pool), "corpus"
	case 2, 3, 4:
		it, kind = srcItem{Src: []byte(g.File(false))}, "gen-xgo"
	case 5:
		it, kind = srcItem{Name: "a.gox", Src: []byte(g.File(true)), Class: true}, "gen-class"
	case 6:
		it, kind = srcItem{Name: "a.go", Src: []byte(g.GoFile())}, "gen-go"
	default:
		base := fw.Pick(r, pool)
		if r.Bool() {
			base = srcItem{Src: []byte(g.File(false))}
		}
		if r.Bool() {
			return srcItem{Name: base.Name, Class: base.Class, Src: injectAtTokens(r, base.Src, r.Range(1, 4))}, "inject"
		}
		return srcItem{Name: base.Name, Class: base.Class, Src: respace(r, base.Src)}, "respace"
	}
	return
}

type tokExt struct {
	off, end int
	tok      token.Token
	lit      string
}

// scanTokens returns the real tokens (no auto-semicolons) with source extents.
func scanTokens(src []byte, comments bool) []tokExt {
	fset := token.NewFileSet()
	file := fset.AddFile("a.xgo", -1, len(src))
	var s scanner.Scanner
	mode := scanner.Mode(0)
	if comments {
		mode = scanner.ScanComments
	}
	var out []tokExt
	defer func() { recover() }()
	s.Init(file, src, nil, mode)
	for n := 0; n < len(src)+4; n++ {
		pos, tok, lit := s.Scan()
		if tok == token.EOF {
			break
		}
		if tok == token.SEMICOLON && lit == "\n" {
			continue
		}
		off := int(pos) - file.Base()
		var l int
		switch {
		case tok == token.CSTRING:
			l = matchCR(src, off+1, lit) + 1
		case tok == token.PYSTRING:
			l = matchCR(src, off+2, lit) + 2
		case lit != "" && tok != token.ILLEGAL:
			l = matchCR(src, off, lit)
		default:
			l = len(tok.String())
			if tok == token.ILLEGAL {
				l = len(lit)
			}
		}
		if l <= 0 {
			l = 1
		}
		out = append(out, tokExt{off, off + l, tok, lit})
	}
	return out
}

// injectAtTokens inserts k uniquely numbered comments at token boundaries.
func injectAtTokens(r *fw.Rand, src []byte, k int) []byte {
	toks := scanTokens(src, true)
	if len(toks) == 0 {
		return src
	}
	type ins struct {
		off int
		txt string
	}
	var list []ins
	for i := 0; i < k; i++ {
		t := toks[r.Intn(len(toks))]
		off := t.off
		if r.Bool() {
			off = t.end
		}
		id := "c" + string(rune('0'+i))
		list = append(list, ins{off, fw.Pick(r, []string{"/*" + id + "*/", " /*" + id + "*/ ", "//" + id + "\n", " // " + id + "\n", "#" + id + "\n", "/*" + id + "\n" + id + "*/"})})
	}
	// apply from the back
	for i := 0; i < len(list); i++ {
		for j := i + 1; j < len(list); j++ {
			if list[j].off > list[i].off {
				list[i], list[j] = list[j], list[i]
			}
		}
	}
	b := append([]byte(nil), src...)
	for _, in := range list {
		b = append(b[:in.off], append([]byte(in.txt), b[in.off:]...)...)
	}
	return b
}

// respace re-draws the whitespace between tokens (never joining two tokens that would fuse).
func respace(r *fw.Rand, src []byte) []byte {
	toks := scanTokens(src, true)
	if len(toks) < 2 {
		return src
	}
	var b strings.Builder
	b.Write(src[:toks[0].off])
	for i, t := range toks {
		b.Write(src[t.off:t.end])
		if i+1 < len(toks) {
			gap := string(src[t.end:toks[i+1].off])
			switch r.Intn(8) {
			case 0:
				if strings.Contains(gap, "\n") {
					gap = "\n\n"
				} else if gap != "" {
					gap = "  "
				}
			case 1:
				if gap == " " {
					gap = "\t"
				}
			case 2:
				if strings.Contains(gap, "\n") {
					gap = strings.ReplaceAll(gap, "\n", "\r\n")
				}
			case 3:
				if gap != "" && !strings.Contains(gap, "\n") {
					gap = " " + gap
				}
			}
			b.WriteString(gap)
		} else {
			b.Write(src[t.end:])
		}
	}
	return []byte(b.String())
}

// parseValid parses it with comments; ok=false if it has errors or panics.
func parseValid(it srcItem) (*ast.File, *token.FileSet, bool) {
	f, fset, err, pk := safeParse(it, parser.ParseComments)
	if pk != nil || err != nil || f == nil {
		return nil, nil, false
	}
	return f, fset, true
}

var tokMutPool = []string{"(", ")", "[", "]", "{", "}", ",", ";", ":", ":=", "=", "=>", "<-", "...", "?", "!", "$", ".", "*", "&", "-", "+", "->", "<>", "if", "for", "func", "goto L", "L:", "range", "in", "var", "type", "struct", "interface", "map", "chan", "go", "defer", "return", "break L", "continue", "switch", "case x:", "default:", "select", "else", "import", "package p", "x", "1", `"s"`, "`r`", "'c'", "1r", "tpl`> `", "huh`> (\n`", "${", "\n", " "}

// tokenMutate applies 1..k token-level mutations (delete / duplicate / swap / replace / insert from the whole token table).
func tokenMutate(r *fw.Rand, src []byte, k int) []byte {
	toks := scanTokens(src, true)
	if len(toks) < 2 {
		return src
	}
	pieces := make([]string, 0, len(toks)*2+1)
	prev := 0
	for _, t := range toks {
		pieces = append(pieces, string(src[prev:t.off]), string(src[t.off:t.end]))
		prev = t.end
	}
	pieces = append(pieces, string(src[prev:]))
	// token i is pieces[2*i+1]
	for n := r.Range(1, k); n > 0; n-- {
		i := 2*r.Intn(len(toks)) + 1
		switch r.Intn(5) {
		case 0:
			pieces[i] = ""
		case 1:
			pieces[i] = pieces[i] + " " + pieces[i]
		case 2:
			j := 2*r.Intn(len(toks)) + 1
			pieces[i], pieces[j] = pieces[j], pieces[i]
		case 3:
			pieces[i] = fw.Pick(r, tokMutPool)
		default:
			pieces[i] = fw.Pick(r, tokMutPool) + " " + pieces[i]
		}
	}
	return []byte(strings.Join(pieces, ""))
}

// scanTokensSemi returns all tokens including comments and (auto-)semicolons.
func scanTokensSemi(src []byte) []tokExt {
	fset := token.NewFileSet()
	file := fset.AddFile("a.xgo", -1, len(src))
	var s scanner.Scanner
	var out []tokExt
	defer func() { recover() }()
	s.Init(file, src, nil, scanner.ScanComments)
	for n := 0; n < 2*len(src)+4; n++ {
		pos, tok, lit := s.Scan()
		if tok == token.EOF {
			break
		}
		off := int(pos) - file.Base()
		if tok == token.SEMICOLON {
			lit = ""
		}
		out = append(out, tokExt{off, off, tok, lit})
	}
	return out
}
