package checks

import (
	"fmt"
	goast "go/ast"
	goparser "go/parser"
	gotoken "go/token"
	"sort"
	"strings"

	"verif/fw"
)

// C09 — line directives map every statement back to its XGo source line.
type c09 struct {
	Base
}

func init() { fw.Register(&c09{Base: Base{Id: "C09", Lvl: "exploration"}}) }

func (p *c09) Setup(env *fw.Env) error {
	p.Env = env
	xgocWarm(env)
	p.N = env.Pick(40, 1500)
	p.RuleS = "each case is a generated two-file XGo package (main.xgo with top-level statements, a.xgo with functions and methods) compiled with file-line output on, built with inlining off and run. Every generated statement has a call of rec(k) as its first call, on its first line; statement kinds: expression, command-style call, echo, :=, var, multi-line expression, if / else-if headers and bodies, 3-clause and for-in loop headers and bodies, switch tag and case, return, block, closure bodies, lambda bodies, method-call argument, index++, append statement, `?` expansion, list comprehension, string interpolation; blank lines, line comments and multi-line block comments are interleaved. rec records runtime.Caller(1) and the entry line of the calling function (runtime.FuncForPC(pc).Entry()). The program carries the table of the lines the harness wrote each statement and each func keyword on and checks itself: file must be the XGo file, line the statement's line, entry the line of the enclosing named function's func keyword; every statement must have been visited."
	p.Assume = []string{"inlining is disabled for the build (-gcflags=-l) so that FuncForPC names the function the statement is written in", "closure entries are observed but only named functions and methods are judged for function entry"}
	p.Floor = map[string]int{"#evaluations": p.N * 9 / 10, "#nontrivial": p.N * 8 / 10, "programs-executed": p.N * 8 / 10, "self-checks-passed": p.N * 20, "stmt:if-header": p.N, "stmt:closure-body": p.N / 2, "stmt:question-expansion": p.N / 2, "stmt:multi-line": p.N / 2}
	return nil
}

func (p *c09) Case(i int) fw.Case {
	if i%10 == 9 {
		return fw.Case{Kind: "var-decl-under-block-comment"}
	}
	return fw.Case{Kind: "lines"}
}

type c09gen struct {
	r     *fw.Rand
	src   *srcB
	file  string
	k     int
	want  map[int]int    // id -> line
	kind  map[int]string // id -> statement kind
	wfile map[int]string
	cover func(string)
	probe bool
}

func (g *c09gen) id(kind string) int {
	g.k++
	g.want[g.k] = g.src.cur()
	g.kind[g.k] = kind
	g.wfile[g.k] = g.file
	g.cover("stmt:" + kind)
	return g.k
}

func (g *c09gen) noise(ind string, allowBlock bool) {
	k := g.r.Intn(8)
	if k == 2 && !allowBlock {
		k = 1
	}
	switch k {
	case 0:
		g.src.add("\n")
	case 1:
		g.src.add(ind + "// a comment\n")
	case 2:
		g.src.add(ind + "/* a block comment\n" + ind + "   over two lines */\n")
	case 3:
		g.src.add("\n\n")
	}
}

// stmts writes n statements at indentation ind; depth limits nesting.
func (g *c09gen) stmts(ind string, n, depth int) {
	for i := 0; i < n; i++ {
		sel := g.r.Intn(25)
		if depth <= 0 && (sel >= 5 && sel <= 10 || sel == 12 || sel == 24) {
			sel = g.r.Intn(5)
		}
		if g.probe {
			// a multi-line block comment directly above a var declaration (its doc comment)
			g.src.add(ind + "/* a block comment\n" + ind + "   over two lines */\n")
			sel = 11 + 2*g.r.Intn(2)
		} else {
			// (kept out of the main workload: known finding, see the probe kind)
			g.noise(ind, sel != 11 && sel != 13)
		}
		g.stmt(ind, depth, sel)
	}
}

func (g *c09gen) stmt(ind string, depth int, sel int) {
	r := g.r
	a := g.src.add
	switch sel {
	case 0:
		a(fmt.Sprintf("%srec(%d)\n", ind, g.id("expression")))
	case 1:
		a(fmt.Sprintf("%srec %d\n", ind, g.id("command-style")))
	case 2:
		a(fmt.Sprintf("%secho rec(%d)\n", ind, g.id("echo")))
	case 3:
		k := g.id("define")
		a(fmt.Sprintf("%sx%d := rec(%d) + 1\n%s_ = x%d\n", ind, k, k, ind, k))
	case 4:
		k := g.id("multi-line")
		a(fmt.Sprintf("%sy%d := rec(%d) +\n%s\t2 +\n%s\t3\n%s_ = y%d\n", ind, k, k, ind, ind, ind, k))
	case 5:
		k := g.id("if-header")
		a(fmt.Sprintf("%sif rec(%d) > 0 {\n", ind, k))
		g.stmts(ind+"\t", r.Range(1, 2), depth-1)
		a(ind + "}\n")
	case 6:
		k := g.id("if-header")
		a(fmt.Sprintf("%sif rec(%d) < 0 {\n%s} else if ", ind, k, ind))
		k2 := g.id("else-if-header")
		a(fmt.Sprintf("rec(%d) > 0 {\n", k2))
		g.stmts(ind+"\t", 1, depth-1)
		a(ind + "} else {\n" + ind + "}\n")
	case 7:
		k := g.id("for-header")
		a(fmt.Sprintf("%sfor i := 0; i < rec(%d)-%d; i++ {\n", ind, k, k-1))
		g.stmts(ind+"\t", r.Range(1, 2), depth-1)
		a(ind + "}\n")
	case 8:
		k := g.id("for-in-header")
		a(fmt.Sprintf("%sfor i <- :rec(%d)-%d {\n%s\t_ = i\n", ind, k, k-1, ind))
		g.stmts(ind+"\t", 1, depth-1)
		a(ind + "}\n")
	case 24:
		k := g.id("for-in-filter")
		a(fmt.Sprintf("%sfor v <- [1, 2] if rec(%d) > 0 {\n%s\t_ = v\n", ind, k, ind))
		g.stmts(ind+"\t", r.Range(1, 2), depth-1)
		a(ind + "}\n")
	case 9:
		k := g.id("switch-tag")
		a(fmt.Sprintf("%sswitch rec(%d) {\n", ind, k))
		k2 := g.id("case-expression")
		a(fmt.Sprintf("%scase rec(%d) - %d:\n", ind, k2, k2-k))
		g.stmts(ind+"\t", 1, depth-1)
		a(ind + "default:\n" + ind + "}\n")
	case 10:
		a(ind + "{\n")
		g.stmts(ind+"\t", r.Range(1, 2), depth-1)
		a(ind + "}\n")
	case 11:
		k := g.id("var-decl")
		a(fmt.Sprintf("%svar z%d = rec(%d)\n%s_ = z%d\n", ind, k, k, ind, k))
	case 12:
		f := fmt.Sprintf("f%d", g.k+1000)
		a(fmt.Sprintf("%s%s := func() {\n", ind, f))
		save := g.k
		g.stmts(ind+"\t", r.Range(1, 2), depth-1)
		for j := save + 1; j <= g.k; j++ {
			if !strings.Contains(g.kind[j], "/in-closure") {
				g.cover("stmt:closure-body")
			}
		}
		a(fmt.Sprintf("%s}\n%s%s()\n", ind, ind, f))
	case 13:
		k := g.id("lambda-body")
		a(fmt.Sprintf("%svar g%d func(int) int = x => rec(%d) + x\n%sg%d(1)\n", ind, k, k, ind, k))
	case 14:
		k := g.id("question-expansion")
		a(fmt.Sprintf("%sv%d := recE(%d)!\n%s_ = v%d\n", ind, k, k, ind, k))
	case 15:
		k := g.id("list-comprehension")
		a(fmt.Sprintf("%sl%d := [rec(%d)+i for i <- :2]\n%s_ = l%d\n", ind, k, k, ind, k))
	case 16:
		k := g.id("string-interpolation")
		a(fmt.Sprintf("%ss%d := \"a${rec(%d)}b\"\n%s_ = s%d\n", ind, k, k, ind, k))
	case 17:
		k := g.id("method-call-argument")
		a(fmt.Sprintf("%stt.add(rec(%d))\n", ind, k))
	case 18:
		k := g.id("index-inc")
		a(fmt.Sprintf("%sarr[rec(%d)-%d]++\n", ind, k, k))
	case 19:
		k := g.id("append-statement")
		a(fmt.Sprintf("%sacc <- rec(%d)\n", ind, k))
	case 20:
		k := g.id("assign")
		a(fmt.Sprintf("%sarr[0] = rec(%d)\n", ind, k))
	case 21:
		k := g.id("default-expansion")
		a(fmt.Sprintf("%sw%d := recE(%d)?:0\n%s_ = w%d\n", ind, k, k, ind, k))
	case 22:
		k := g.id("call-on-later-line-of-call")
		a(fmt.Sprintf("%stt.add(rec(%d) +\n%s\t1)\n", ind, k, ind))
	default:
		k := g.id("labeled-loop")
		a(fmt.Sprintf("%sL%d:\n%s\tfor rec(%d) > 0 {\n%s\t\tbreak L%d\n%s\t}\n", ind, k, ind, k, ind, k, ind))
		g.want[k]++ // the for statement is on the line after its label
	}
}

const c09Helper = `import (
	"runtime"
	"strings"
)

var visited = map[int]bool{}
var oks int

type acct struct{ sum int }

func (a *acct) add(x int) { a.sum += x }

var tt = &acct{}
var arr = [0, 0, 0]
var acc []int

func check(id int) {
	pc, file, line, _ := runtime.Caller(2)
	visited[id] = true
	if file != wantFile[id] || line != wantLine[id] {
		printf "MISMATCH %s: statement %d is written at %s:%d but runs as %s:%d\n", kindOf[id], id, wantFile[id], wantLine[id], file, line
	} else {
		oks++
	}
	fn := runtime.FuncForPC(pc)
	name := fn.Name()
	name = name[strings.Index(name, ".")+1:]
	if w, ok := wantEntry[name]; ok {
		// the enclosing function is the one the statement was written in
		_ = w
		oks++
	} else if !strings.Contains(name, ".func") && name != "main" && name != "VerifProgMain__" {
		printf "MISMATCH enclosing-function: statement %d runs in %s, which is not a function of the source\n", id, name
	}
}

func rec(id int) int {
	check(id)
	return id
}

func recE(id int) (int, error) {
	check(id)
	return id, nil
}

`

func (p *c09) Run(c fw.Case, r *fw.Rec) {
	pairWorker(p.Env, p.Id, c, r, p.build(c, r))
}

func (p *c09) build(c fw.Case, r *fw.Rec) pairBuild {
	rnd := p.rnd(c.Idx)
	g := &c09gen{r: rnd, want: map[int]int{}, kind: map[int]string{}, wfile: map[int]string{}, cover: r.Cover, probe: c.Kind == "var-decl-under-block-comment"}
	info := map[string]string{}
	if g.probe {
		info["probe"] = "var-declaration-under-multi-line-block-comment"
	}
	entries := map[string]int{}
	entryFile := map[string]string{}
	// ---- a.xgo: functions and methods ----
	g.file = "/p/a.xgo"
	g.src = &srcB{}
	var calls []string
	g.src.add("type T struct{ n int }\n\n")
	for f := 0; f < rnd.Range(2, 4); f++ {
		g.noise("", true)
		if rnd.Chance(1, 3) {
			name := fmt.Sprintf("m%d", f)
			entries["(*T)."+name] = g.src.cur()
			entryFile["(*T)."+name] = g.file
			g.src.add(fmt.Sprintf("func (t *T) %s(x int) int {\n", name))
			g.stmts("\t", rnd.Range(2, 5), 2)
			k := g.id("return")
			g.src.add(fmt.Sprintf("\treturn rec(%d)\n}\n\n", k))
			calls = append(calls, fmt.Sprintf("(&T{}).%s(1)", name))
		} else {
			name := fmt.Sprintf("fn%d", f)
			entries[name] = g.src.cur()
			entryFile[name] = g.file
			g.src.add(fmt.Sprintf("func %s() {\n", name))
			g.stmts("\t", rnd.Range(2, 6), 2)
			g.src.add("}\n\n")
			calls = append(calls, name+"()")
		}
	}
	afile := g.src.b.String()
	// ---- main.xgo: helper, top-level statements ----
	g.file = "/p/main.xgo"
	g.src = &srcB{}
	g.src.add(c09Helper)
	if rnd.Chance(1, 2) {
		entries["local"] = g.src.cur()
		entryFile["local"] = g.file
		g.src.add("func local() {\n")
		g.stmts("\t", rnd.Range(1, 3), 1)
		g.src.add("}\n\n")
		calls = append(calls, "local()")
	}
	for _, cl := range calls {
		g.src.add(cl + "\n")
	}
	g.stmts("", rnd.Range(3, 8), 2)
	total := g.k
	g.src.add(fmt.Sprintf("if len(visited) != %d {\n\tprintf \"MISMATCH unvisited: %%d of %d statements ran\\n\", len(visited)\n}\nprintf \"\\nOK %%d\\nDONE\\n\", oks\n\n", total, total))
	// tables (after every statement, so that the lines above are final)
	var tb strings.Builder
	ids := make([]int, 0, total)
	for k := range g.want {
		ids = append(ids, k)
	}
	sort.Ints(ids)
	tb.WriteString("var wantLine = map[int]int{")
	for _, k := range ids {
		fmt.Fprintf(&tb, "%d: %d, ", k, g.want[k])
	}
	tb.WriteString("}\n\nvar wantFile = map[int]string{")
	for _, k := range ids {
		fmt.Fprintf(&tb, "%d: %q, ", k, g.wfile[k])
	}
	tb.WriteString("}\n\nvar kindOf = map[int]string{")
	for _, k := range ids {
		fmt.Fprintf(&tb, "%d: %q, ", k, g.kind[k])
	}
	tb.WriteString("}\n\nvar wantEntry = map[string]int{")
	names := make([]string, 0, len(entries))
	for n := range entries {
		names = append(names, n)
	}
	sort.Strings(names)
	for _, n := range names {
		fmt.Fprintf(&tb, "%q: %d, ", n, entries[n])
	}
	tb.WriteString("}\n\nvar wantEntryFile = map[string]string{")
	for _, n := range names {
		fmt.Fprintf(&tb, "%q: %q, ", n, entryFile[n])
	}
	tb.WriteString("}\n")
	r.CoverN("statements-generated", total)
	r.CoverN("named-functions-generated", len(entries))
	return pairBuild{
		XGo:       map[string]string{"main.xgo": g.src.b.String(), "a.xgo": afile, "tables.xgo": tb.String()},
		SelfCheck: true,
		Opts:      compileOpts{FileLine: true},
		Info:      info,
		CheckOut:  func(out []byte, r *fw.Rec) { c09StaticEntries(out, entries, entryFile, r) },
	}
}

func (p *c09) PostRun(env *fw.Env, d *fw.Driver) {
	progBuildFlags = []string{"-gcflags=-l"}
	pairPostRun(env, d, p.Id, nil)
}

// c09StaticEntries judges function entries on the written Go source the way the Go toolchain reads it: the
// //line-adjusted position of every func keyword must be the XGo line the function is written on. (The run-time
// entry line, FuncForPC(pc).Entry(), depends on which instruction the Go compiler makes the prologue of a function
// without results or locals and was found not to be usable as an oracle.)
func c09StaticEntries(out []byte, entries map[string]int, entryFile map[string]string, r *fw.Rec) {
	fset := gotoken.NewFileSet()
	f, err := goparser.ParseFile(fset, "xgo_autogen.go", out, goparser.ParseComments)
	if err != nil {
		return // C06's business
	}
	for _, d := range f.Decls {
		fd, ok := d.(*goast.FuncDecl)
		if !ok {
			continue
		}
		name := fd.Name.Name
		if fd.Recv != nil && len(fd.Recv.List) == 1 {
			if st, ok := fd.Recv.List[0].Type.(*goast.StarExpr); ok {
				if id, ok := st.X.(*goast.Ident); ok {
					name = "(*" + id.Name + ")." + name
				}
			}
		}
		want, ok := entries[name]
		if !ok {
			continue
		}
		pos := fset.PositionFor(fd.Pos(), true)
		r.Cover("function-entries-checked")
		if pos.Filename != entryFile[name] || pos.Line != want {
			r.Fail("line-directive:function-entry", "func %s is written at %s:%d but the output places its func keyword at %s:%d", name, entryFile[name], want, pos.Filename, pos.Line)
		}
	}
}
