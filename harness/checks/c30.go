package checks

import (
	"fmt"
	"strconv"
	"strings"

	"github.com/goplus/xgo/tpl"
	ast "github.com/goplus/xgo/tpl/ast"
	tpltoken "github.com/goplus/xgo/tpl/token"

	"verif/fw"
)

// C30 — TPL result helpers fold lists left to right.
type c30 struct {
	Base
	calc    tpl.Compiler
	calcErr error
}

func init() { fw.Register(&c30{Base: Base{Id: "C30", Lvl: "exploration"}}) }

const c30Grammar = `
expr = operand % ("*" | "/") % ("+" | "-")
operand = basicLit | unaryExpr | parenExpr
parenExpr = "(" expr ")"
unaryExpr = "-" operand
basicLit = INT
`

type c30div0 struct{}

func (p *c30) Setup(env *fw.Env) error {
	p.Env = env
	p.N = env.Pick(40000, 1200000)
	p.RuleS = "(a) synthetic results of `R % sep` of random length 1..8 and nesting depth<=3 fed to List, ListOp, RangeOp, BinaryOp(R/NR) and BinaryExpr(R/NR) with a non-commutative, non-associative string-building fn, compared with a left-fold model; (b) the README calculator grammar compiled through tpl.New with BinaryOp(true,…) ret-procs, evaluated on random integer expressions (+ - * /, unary minus, parentheses, depth<=5) and compared with a precedence-climbing evaluator written in the harness (division by zero cases are skipped). Non-trivial = list with >=2 items / expression with >=2 operators."
	p.Assume = []string{"integer arithmetic (int64, truncating division) on both sides"}
	p.Floor = map[string]int{"#evaluations": p.N / 2, "#nontrivial": 5000, "helper:List": 1000, "helper:ListOp": 1000, "helper:RangeOp": 1000, "helper:BinaryOpR": 1000, "helper:BinaryOpNR": 1000, "helper:BinaryExprR": 1000, "helper:BinaryExprNR": 1000, "calc:agree": p.N / 10, "nested-list": 1000}
	p.calc, p.calcErr = tpl.New(c30Grammar,
		"expr", func(self []any) any {
			return tpl.BinaryOp(true, self, func(op *tpl.Token, x, y any) any {
				a, b := x.(int64), y.(int64)
				switch op.Tok {
				case '+':
					return a + b
				case '-':
					return a - b
				case '*':
					return a * b
				case '/':
					if b == 0 {
						panic("division by zero")
					}
					return a / b
				}
				panic("unexpected operator")
			})
		},
		"parenExpr", func(self []any) any { return self[1] },
		"unaryExpr", func(self []any) any { return -(self[1].(int64)) },
		"basicLit", func(self any) any {
			v, err := strconv.ParseInt(self.(*tpl.Token).Lit, 10, 64)
			if err != nil {
				panic(err.Error())
			}
			return v
		})
	return nil
}

func (p *c30) Case(i int) fw.Case {
	r := p.rnd(i)
	if i%2 == 0 {
		return fw.Case{Kind: "list", In: []byte(c30GenList(r, 0))}
	}
	return fw.Case{Kind: "calc", In: []byte(c30GenExpr(r, 0))}
}

// list notation: items separated by operators; nested lists in brackets: "a - b * [c + d] / e"
func c30GenList(r *fw.Rand, depth int) string {
	n := r.Range(1, 8)
	var b strings.Builder
	for i := 0; i < n; i++ {
		if i > 0 {
			b.WriteString(" " + fw.Pick(r, []string{"+", "-", "*", "/", ","}) + " ")
		}
		if depth < 3 && r.Chance(1, 4) {
			b.WriteString("[" + c30GenList(r, depth+1) + "]")
		} else {
			b.WriteString(fw.Pick(r, []string{"a", "b", "c", "d", "e", "f"}) + strconv.Itoa(r.Intn(10)))
		}
	}
	return b.String()
}

type c30item struct {
	leaf string
	sub  *c30list
}
type c30list struct {
	items []c30item
	ops   []string
}

func c30ParseList(s string, i *int) *c30list {
	l := &c30list{}
	for {
		for *i < len(s) && s[*i] == ' ' {
			*i++
		}
		if *i < len(s) && s[*i] == '[' {
			*i++
			sub := c30ParseList(s, i)
			l.items = append(l.items, c30item{sub: sub})
			*i++ // ]
		} else {
			j := *i
			for j < len(s) && s[j] != ' ' && s[j] != ']' {
				j++
			}
			l.items = append(l.items, c30item{leaf: s[*i:j]})
			*i = j
		}
		for *i < len(s) && s[*i] == ' ' {
			*i++
		}
		if *i >= len(s) || s[*i] == ']' {
			return l
		}
		l.ops = append(l.ops, s[*i:*i+1])
		*i++
	}
}

// build the `R % sep` match result for a list: [x0, [[op1 x1] [op2 x2] …]]
func (l *c30list) result(leaf func(string) any, pos *int) []any {
	mk := func(it c30item) any {
		if it.sub != nil {
			return it.sub.result(leaf, pos)
		}
		return leaf(it.leaf)
	}
	first := mk(l.items[0])
	rest := make([]any, 0, len(l.ops))
	for k, op := range l.ops {
		*pos += 10
		t := &tpl.Token{Tok: tpltoken.Token(op[0]), Pos: 1000 + tplPos(*pos)}
		rest = append(rest, []any{t, mk(l.items[k+1])})
	}
	return []any{first, rest}
}

// model: left fold
func (l *c30list) fold(rec bool) string {
	val := func(it c30item) string {
		if it.sub != nil {
			if rec {
				return it.sub.fold(true)
			}
			return "<list>"
		}
		return it.leaf
	}
	acc := val(l.items[0])
	for k, op := range l.ops {
		acc = "(" + acc + " " + op + " " + val(l.items[k+1]) + ")"
	}
	return acc
}

func (l *c30list) flat() bool {
	for _, it := range l.items {
		if it.sub != nil {
			return false
		}
	}
	return true
}

func c30ExprString(e ast.Expr) string {
	switch e := e.(type) {
	case *ast.Ident:
		return e.Name
	case *ast.BinaryExpr:
		return "(" + c30ExprString(e.X) + " " + string(rune(e.Op)) + " " + c30ExprString(e.Y) + ")"
	}
	return fmt.Sprintf("<%T>", e)
}

func (p *c30) runList(c fw.Case, r *fw.Rec) {
	src := string(c.In)
	i := 0
	l := c30ParseList(src, &i)
	strLeaf := func(s string) any { return s }
	pos := 0
	res := l.result(strLeaf, &pos)
	if !l.flat() {
		r.Cover("nested-list")
	}
	// List / ListOp / RangeOp: items in source order (top level only)
	var wantItems []string
	for _, it := range l.items {
		if it.sub != nil {
			wantItems = append(wantItems, "<list>")
		} else {
			wantItems = append(wantItems, it.leaf)
		}
	}
	show := func(v any) string {
		if s, ok := v.(string); ok {
			return s
		}
		return "<list>"
	}
	fw.Guard(r, "tpl.List", func() {
		var got []string
		for _, v := range tpl.List(res) {
			got = append(got, show(v))
		}
		r.Cover("helper:List")
		if strings.Join(got, "|") != strings.Join(wantItems, "|") {
			r.Fail("tpl.List:order", "List(%s) = %v, want %v", src, got, wantItems)
		}
	})
	fw.Guard(r, "tpl.ListOp", func() {
		got := tpl.ListOp(res, show)
		r.Cover("helper:ListOp")
		if strings.Join(got, "|") != strings.Join(wantItems, "|") {
			r.Fail("tpl.ListOp:order", "ListOp(%s) = %v, want %v", src, got, wantItems)
		}
	})
	fw.Guard(r, "tpl.RangeOp", func() {
		var got []string
		tpl.RangeOp(res, func(v any) { got = append(got, show(v)) })
		r.Cover("helper:RangeOp")
		if strings.Join(got, "|") != strings.Join(wantItems, "|") {
			r.Fail("tpl.RangeOp:order", "RangeOp(%s) visited %v, want %v", src, got, wantItems)
		}
	})
	fn := func(op *tpl.Token, x, y any) any {
		return "(" + show(x) + " " + string(rune(op.Tok)) + " " + show(y) + ")"
	}
	fw.Guard(r, "tpl.BinaryOpR", func() {
		got := show(tpl.BinaryOp(true, res, fn))
		r.Cover("helper:BinaryOpR")
		if want := l.fold(true); got != want {
			r.Fail("tpl.BinaryOpR:fold", "BinaryOp(true, %s) = %s, want left fold %s", src, got, want)
		}
	})
	fw.Guard(r, "tpl.BinaryOpNR", func() {
		got := show(tpl.BinaryOp(false, res, fn))
		r.Cover("helper:BinaryOpNR")
		if want := l.fold(false); got != want {
			r.Fail("tpl.BinaryOpNR:fold", "BinaryOp(false, %s) = %s, want left fold %s", src, got, want)
		}
	})
	// BinaryExpr: leaves are ast.Expr
	pos = 0
	eres := l.result(func(s string) any { return &ast.Ident{Name: s} }, &pos)
	fw.Guard(r, "tpl.BinaryExprR", func() {
		got := c30ExprString(tpl.BinaryExpr(true, eres))
		r.Cover("helper:BinaryExprR")
		if want := l.fold(true); got != want {
			r.Fail("tpl.BinaryExprR:fold", "BinaryExpr(true, %s) = %s, want %s", src, got, want)
		}
	})
	if l.flat() {
		fw.Guard(r, "tpl.BinaryExprNR", func() {
			got := c30ExprString(tpl.BinaryExpr(false, eres))
			r.Cover("helper:BinaryExprNR")
			if want := l.fold(false); got != want {
				r.Fail("tpl.BinaryExprNR:fold", "BinaryExpr(false, %s) = %s, want %s", src, got, want)
			}
		})
	}
	if len(l.items) >= 2 {
		r.NonTrivial()
		r.Sample(map[string]string{"list": src, "fold": l.fold(true)})
	}
}

// ---- calculator ----

func c30GenExpr(r *fw.Rand, depth int) string {
	if depth >= 5 || r.Chance(1, 3) {
		return strconv.Itoa(r.Intn(20))
	}
	switch r.Intn(8) {
	case 0:
		return c30Neg(c30GenOperand(r, depth+1))
	case 1:
		return "(" + c30GenExpr(r, depth+1) + ")"
	default:
		n := r.Range(2, 4)
		var b strings.Builder
		for i := 0; i < n; i++ {
			if i > 0 {
				b.WriteString(fw.Pick(r, []string{" + ", " - ", " * ", " / ", "-", "*", " /"}))
			}
			o := c30GenOperand(r, depth+1)
			if strings.HasSuffix(b.String(), "-") && strings.HasPrefix(o, "-") {
				b.WriteString(" ") // "--" is a token of its own
			}
			b.WriteString(o)
		}
		return b.String()
	}
}

func c30GenOperand(r *fw.Rand, depth int) string {
	switch r.Intn(6) {
	case 0:
		return "(" + c30GenExpr(r, depth) + ")"
	case 1:
		return c30Neg(c30GenOperand(r, depth+1))
	default:
		return strconv.Itoa(r.Intn(20))
	}
}

// precedence-climbing reference evaluator
type c30eval struct {
	s string
	i int
}

func (e *c30eval) ws() {
	for e.i < len(e.s) && e.s[e.i] == ' ' {
		e.i++
	}
}
func (e *c30eval) operand() int64 {
	e.ws()
	switch c := e.s[e.i]; {
	case c == '-':
		e.i++
		return -e.operand()
	case c == '(':
		e.i++
		v := e.expr(1)
		e.ws()
		e.i++
		return v
	default:
		j := e.i
		for j < len(e.s) && e.s[j] >= '0' && e.s[j] <= '9' {
			j++
		}
		v, _ := strconv.ParseInt(e.s[e.i:j], 10, 64)
		e.i = j
		return v
	}
}
func (e *c30eval) expr(minPrec int) int64 {
	lhs := e.operand()
	for {
		e.ws()
		if e.i >= len(e.s) {
			return lhs
		}
		op := e.s[e.i]
		prec := 0
		switch op {
		case '+', '-':
			prec = 1
		case '*', '/':
			prec = 2
		}
		if prec == 0 || prec < minPrec {
			return lhs
		}
		e.i++
		rhs := e.expr(prec + 1)
		switch op {
		case '+':
			lhs += rhs
		case '-':
			lhs -= rhs
		case '*':
			lhs *= rhs
		case '/':
			if rhs == 0 {
				panic(c30div0{})
			}
			lhs /= rhs
		}
	}
}

func (p *c30) runCalc(c fw.Case, r *fw.Rec) {
	if p.calcErr != nil {
		r.Fail("calc:grammar-rejected", "README calculator grammar rejected: %v", p.calcErr)
		return
	}
	src := string(c.In)
	var want int64
	div0 := false
	func() {
		defer func() {
			if e := recover(); e != nil {
				if _, ok := e.(c30div0); ok {
					div0 = true
					return
				}
				panic(e)
			}
		}()
		ev := &c30eval{s: src}
		want = ev.expr(1)
	}()
	if div0 {
		r.Skip("division-by-zero")
		return
	}
	var got any
	var err error
	if fw.Guard(r, "calc.ParseExpr", func() { got, err = p.calc.ParseExpr(src, nil) }) {
		return
	}
	if err != nil {
		r.Fail("calc:error", "calculator failed on %q: %v (reference value %d)", src, err, want)
		return
	}
	if v, ok := got.(int64); !ok || v != want {
		r.Fail("calc:value-differs", "calculator(%q) = %v, precedence-climbing reference = %d", src, got, want)
		return
	}
	r.Cover("calc:agree")
	if strings.Count(src, " ")+strings.Count(src, "-") >= 2 {
		r.NonTrivial()
		r.Sample(map[string]any{"expr": src, "value": want})
	}
}

func (p *c30) Run(c fw.Case, r *fw.Rec) {
	if c.Kind == "list" {
		p.runList(c, r)
	} else {
		p.runCalc(c, r)
	}
}

func c30Neg(o string) string {
	if strings.HasPrefix(o, "-") {
		return "- " + o // "--" is a token of its own
	}
	return "-" + o
}
