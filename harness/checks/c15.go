package checks

import (
	"bytes"
	"fmt"
	"unicode/utf8"

	"github.com/goplus/xgo/scanner"
	"github.com/goplus/xgo/token"

	"verif/corpus"
	"verif/fw"
	"verif/gen"
)

// C15 — scanning is total and every token is the exact source text.
type c15 struct {
	Base
	files []corpus.File
	nExh  int
}

const c15Alphabet = "a1.\"'`/*#\n\r \\x_e+-=<>!$?:{}()r\x00\xffé"

func init() { fw.Register(&c15{Base: Base{Id: "C15", Lvl: "exploration"}}) }

func (p *c15) Setup(env *fw.Env) error {
	p.Env = env
	p.files = append(corpus.XGo(env.Repo), corpus.Go(env.Repo)...)
	p.RuleS = "inputs: (a) all strings of length<=L over a 36-symbol hostile alphabet (L=3 quick, 4 thorough), (b) lexeme streams over the full Go/XGo lexeme tables with all separator kinds, (c) random bytes / UTF-8 soup, (d) byte-mutated windows of repository files; each scanned in both comment modes. Non-trivial = input yields >=2 real tokens; distinct by input bytes+mode."
	p.Assume = []string{"token extents are reconstructed by matching the returned literal against the source with CRs skipped", "auto-inserted semicolons (lit \"\\n\") are not source tokens"}
	L := env.Pick(3, 4)
	p.nExh = gen.CountStrings(len([]rune(c15Alphabet)), L)
	p.N = p.nExh + env.Pick(60000, 4000000)
	p.Floor = map[string]int{"#evaluations": p.N / 2, "#nontrivial": 10000}
	for _, k := range []string{"IDENT", "INT", "FLOAT", "IMAG", "CHAR", "STRING", "COMMENT", "RAT", "UNIT", "CSTRING", "PYSTRING", "ILLEGAL", "keyword", "operator", "autosemi", "=>", "->", "<>", "?", "$"} {
		p.Floor["tok:"+k] = 5
	}
	return nil
}

func nthRuneString(alpha []rune, idx int) string {
	a := len(alpha)
	l, pw := 1, a
	for idx >= pw {
		idx -= pw
		pw *= a
		l++
	}
	buf := make([]rune, l)
	for i := l - 1; i >= 0; i-- {
		buf[i] = alpha[idx%a]
		idx /= a
	}
	var b []byte
	for _, r := range buf {
		if r == 0xff {
			b = append(b, 0xff)
		} else {
			b = utf8.AppendRune(b, r)
		}
	}
	return string(b)
}

var c15Alpha = func() []rune {
	var rs []rune
	for _, b := range []byte("a1.\"'`/*#\n\r \\x_e+-=<>!$?:{}()r\x00") {
		rs = append(rs, rune(b))
	}
	return append(rs, 0xff, 'é')
}()

func (p *c15) Case(i int) fw.Case {
	if i < p.nExh {
		return fw.Case{Kind: "exh", In: []byte(nthRuneString(c15Alpha, i))}
	}
	r := p.rnd(i)
	switch r.Intn(10) {
	case 0, 1, 2, 3:
		return fw.Case{Kind: "lex", In: []byte(gen.LexStream(r, r.Range(1, 12), false, true))}
	case 4, 5:
		return fw.Case{Kind: "bytes", In: gen.RandBytes(r, 48)}
	default:
		f := fw.Pick(r, p.files)
		o := fw.Pick(r, p.files)
		w := gen.Window(r, f.Src, 300)
		return fw.Case{Kind: "mut", In: gen.Mutate(r, w, o.Src, 4)}
	}
}

type scanTok struct {
	off    int
	tok    token.Token
	lit    string
	auto   bool
	srcLen int
}

// matchCR matches lit against src[off:], skipping CR bytes of the source that lit lacks.
// It returns the number of source bytes consumed, or -1.
func matchCR(src []byte, off int, lit string) int {
	i := off
	for j := 0; j < len(lit); j++ {
		for i < len(src) && src[i] == '\r' && lit[j] != '\r' {
			i++
		}
		if i >= len(src) || src[i] != lit[j] {
			return -1
		}
		i++
	}
	return i - off
}

func (p *c15) Run(c fw.Case, r *fw.Rec) {
	for _, mode := range []scanner.Mode{0, scanner.ScanComments} {
		p.scanOne(c.In, mode, r)
		if r.Failed() {
			return
		}
	}
}

func isKeyword(t token.Token) bool { return t >= token.BREAK && t <= token.VAR }

func (p *c15) scanOne(src []byte, mode scanner.Mode, r *fw.Rec) {
	fset := token.NewFileSet()
	file := fset.AddFile("a.xgo", -1, len(src))
	var s scanner.Scanner
	nerr := 0
	var toks []scanTok
	limit := len(src) + 2
	m := "nocomments"
	if mode != 0 {
		m = "comments"
	}
	if fw.Guard(r, "scanner.Scan", func() {
		s.Init(file, src, func(pos token.Position, msg string) { nerr++ }, mode)
		real := 0
		for {
			pos, tok, lit := s.Scan()
			off := int(pos) - file.Base()
			auto := tok == token.SEMICOLON && lit == "\n"
			toks = append(toks, scanTok{off: off, tok: tok, lit: lit, auto: auto})
			if tok == token.EOF {
				break
			}
			if !auto {
				real++
			}
			if real > limit || len(toks) > 2*limit+4 {
				r.Fail("scan:too-many-tokens", "mode=%s: more than len(src)+2=%d real tokens without EOF", m, limit)
				return
			}
		}
	}) {
		return
	}
	if r.Failed() {
		return
	}
	prevEnd := 0
	if bytes.HasPrefix(src, []byte("\xef\xbb\xbf")) {
		prevEnd = 3
	}
	prevOff := -1
	real := 0
	for _, t := range toks {
		name := ""
		switch {
		case t.auto:
			name = "autosemi"
		case isKeyword(t.tok):
			name = "keyword"
		case t.tok.IsOperator() || t.tok == token.TILDE:
			name = "operator"
			switch t.tok {
			case token.DRARROW, token.SRARROW, token.BIDIARROW, token.QUESTION, token.ENV:
				r.Cover("tok:" + t.tok.String())
			}
		default:
			name = t.tok.String()
		}
		r.Cover("tok:" + name)
		if t.off < 0 || t.off > len(src) {
			r.Fail("scan:offset-out-of-source:"+name, "mode=%s token %s offset %d outside [0,%d]", m, name, t.off, len(src))
			return
		}
		if t.auto {
			if t.off < prevOff {
				r.Fail("scan:autosemi-offset-backwards", "mode=%s auto semicolon at %d after token at %d", m, t.off, prevOff)
				return
			}
			continue
		}
		if t.tok == token.EOF {
			if t.off != len(src) {
				r.Fail("scan:EOF-offset", "mode=%s EOF at %d, len(src)=%d", m, t.off, len(src))
			}
			// trailing gap
			if mode&scanner.ScanComments != 0 {
				p.checkGap(src, prevEnd, len(src), m, r)
			}
			break
		}
		real++
		if t.off <= prevOff {
			r.Fail("scan:offset-not-increasing:"+name, "mode=%s token %s %q at offset %d after previous token at %d", m, name, t.lit, t.off, prevOff)
			return
		}
		prevOff = t.off
		// exact text
		n := -1
		switch {
		case t.tok == token.ILLEGAL:
			// text of ILLEGAL is not claimed; extent = one rune
			_, w := utf8.DecodeRune(src[t.off:])
			if w == 0 {
				w = 1
			}
			n = w
		case t.tok == token.CSTRING:
			if t.off < len(src) && (src[t.off] == 'c' || src[t.off] == 'C') {
				if k := matchCR(src, t.off+1, t.lit); k >= 0 {
					n = k + 1
				}
			}
		case t.tok == token.PYSTRING:
			if bytes.HasPrefix(src[t.off:], []byte("py")) {
				if k := matchCR(src, t.off+2, t.lit); k >= 0 {
					n = k + 2
				}
			}
		case t.lit != "":
			n = matchCR(src, t.off, t.lit)
		default:
			n = matchCR(src, t.off, t.tok.String())
		}
		if n < 0 {
			end := t.off + len(t.lit) + 8
			if end > len(src) {
				end = len(src)
			}
			r.Fail("scan:text-mismatch:"+name, "mode=%s token %s lit=%q does not equal the source at offset %d: %q", m, name, t.lit, t.off, src[t.off:end])
			return
		}
		if mode&scanner.ScanComments != 0 {
			if t.off < prevEnd {
				r.Fail("scan:tokens-overlap:"+name, "mode=%s token %s at %d starts before end %d of the previous token", m, name, t.off, prevEnd)
				return
			}
			if !p.checkGap(src, prevEnd, t.off, m, r) {
				return
			}
		}
		prevEnd = t.off + n
	}
	if real >= 2 {
		r.NonTrivial()
		r.DistinctKey(fmt.Sprintf("%d|%s", mode, src))
	}
	if real >= 3 {
		r.Sample(fw.Quote(src, 80))
	}
	_ = nerr
}

func (p *c15) checkGap(src []byte, a, b int, m string, r *fw.Rec) bool {
	if a > b {
		return true
	}
	for i := a; i < b; i++ {
		switch src[i] {
		case ' ', '\t', '\r', '\n':
		default:
			r.Fail("scan:byte-in-no-token", "mode=%s byte %q at offset %d belongs to no token (gap [%d,%d) = %q)", m, src[i], i, a, b, src[a:b])
			return false
		}
	}
	return true
}
