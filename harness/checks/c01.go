package checks

import (
	"fmt"
	"strings"

	"verif/fw"
	"verif/gen"
)

// C01 — a valid Go program means the same thing when compiled as XGo (N-version monitor: Go toolchain vs XGo compiler).
type c01 struct {
	Base
}

func init() { fw.Register(&c01{Base: Base{Id: "C01", Lvl: "exploration"}}) }

func (p *c01) Setup(env *fw.Env) error {
	p.Env = env
	xgocWarm(env)
	if !env.Worker {
		if err := progSetup(env); err != nil {
			return err
		}
	}
	p.N = env.Pick(60, 3000)
	p.RuleS = "each case is a generated, go/types-checked, deterministic Go main package (typed expressions over ints, floats, strings, bools, slices, maps, structs, pointers, interfaces, closures, methods, variadics, multi-value returns, defer/recover, switch/type switch, labelled loops, constants with iota; no generics, no println, no ${ in strings, only exported member names). The same text is (a) built by the Go toolchain and (b) saved as main.xgo, compiled by cl.NewPackage, written by gogen and built. Oracle: the XGo compiler accepts it, its output builds, and stdout, exit status and the panic line (addresses masked) of the two binaries are identical. Every test function runs under a recover wrapper that prints the recovered value, so run-time panics inside are compared too; the last statement of main may exit non-zero, panic with a string/error value or fault on a nil map."
	p.Assume = []string{"the generator's subset is what the property calls the Go subset XGo claims to accept; programs go/types rejects are discarded before the experiment", "both binaries are built by the same Go toolchain"}
	p.Floor = map[string]int{"#evaluations": p.N * 9 / 10, "#nontrivial": p.N / 2, "pairs-executed": p.N / 2, "stdout-lines-compared": p.N * 10, "reference-ends-in-panic": p.N / 20, "exit-status:0": p.N / 5}
	return nil
}

func (p *c01) Case(i int) fw.Case {
	if i%20 == 9 {
		return fw.Case{Kind: "late-var", P: map[string]string{"n": fmt.Sprint(p.rnd(i).Range(1, 90))}}
	}
	if i%20 == 19 {
		return fw.Case{Kind: "init-order", P: map[string]string{"n": fmt.Sprint(p.rnd(i).Range(1, 90))}}
	}
	if i%5 == 4 {
		r := p.rnd(i)
		t := r.Intn(len(constConvTemplates))
		return fw.Case{Kind: "constconv", P: map[string]string{"t": fmt.Sprint(t), "ctx": fmt.Sprint(r.Intn(4)), "n": fmt.Sprint(r.Range(1, 120))}}
	}
	return fw.Case{Kind: "gogen", P: map[string]string{"i": fmt.Sprint(i)}}
}

// constConvTemplates are constant expressions whose value passes through a type conversion (N = a small
// generated integer). They are kept out of the main generator and probed one per program, so that a failure names
// the conversion it belongs to.
var constConvTemplates = []struct{ id, expr string }{
	{"string-of-rune", `string(rune(N))`},
	{"len-string-of-rune", `len(string(rune(N)))`},
	{"compare-string-of-rune", `"" < string(rune(N))`},
	{"int-of-float-const-div", `int(7.0) / 2 + N`},
	{"float-of-int-const-div", `float64(N) / 2`},
	{"float-of-int-const-compare", `float64(N)/2 > float64(N/2)`},
	{"int64-shift", `int64(N) << 40 >> 38`},
	{"float32-div", `float32(N) / 3`},
	{"int8-of-negative", `int8(-N) / 2`},
	{"uint-shift", `uint(N) << 60 >> 60`},
	{"string-of-byte-index", `string("abc"[N%3])`},
	{"int-of-float-of-int", `int(float64(N)) / 2`},
	{"float-of-int-mul", `float64(N) * 1.5`},
	{"rune-arith", `'a' + rune(N%26)`},
	{"uint8-wrap-guard", `uint8(N) / 3`},
	{"string-concat-rune", `"x" + string(rune(N)) + "y"`},
}

func constConvProgram(c fw.Case) (string, string) {
	var t, ctx int
	fmt.Sscan(c.P["t"], &t)
	fmt.Sscan(c.P["ctx"], &ctx)
	tp := constConvTemplates[t%len(constConvTemplates)]
	x := strings.ReplaceAll(tp.expr, "N", c.P["n"])
	var body string
	switch ctx {
	case 0:
		body = "\tfmt.Println(" + x + ")\n"
	case 1:
		body = "\tconst c = " + x + "\n\tfmt.Printf(\"%v %T\\n\", c, c)\n"
	case 2:
		body = "\tv := " + x + "\n\tfmt.Printf(\"%v %T\\n\", v, v)\n\tw := []any{" + x + "}\n\tfmt.Println(w...)\n"
	default:
		body = "\tif " + x + " == " + x + " {\n\t\tfmt.Println(\"same\")\n\t}\n\tswitch v := any(" + x + ").(type) {\n\tdefault:\n\t\tfmt.Printf(\"%v %T\\n\", v, v)\n\t}\n"
	}
	return tp.id, "package main\n\nimport \"fmt\"\n\nfunc main() {\n" + body + "}\n"
}

func (p *c01) Run(c fw.Case, r *fw.Rec) {
	g := &gen.GoGen{R: p.rnd(c.Idx)}
	src := g.Program(g.R.Range(3, 7))
	info := map[string]string{}
	if c.Kind == "late-var" {
		// a package-level variable whose initialiser names another package-level variable, first referenced in a
		// function that has a local of that name (the initialiser is compiled on demand inside that function)
		src = "package main\n\nimport \"fmt\"\n\nfunc main() {\n\tbase := \"s\"\n\tfmt.Println(base, total)\n}\n\nvar total = base + " + c.P["n"] + "\n\nvar base = 41\n"
		info["probe"] = "late-package-var-initializer"
		r.Cover("kind:late-package-var-probe")
	}
	if c.Kind == "init-order" {
		// independent package-level variables with side-effecting initialisers, referenced from main in another
		// order than they are declared: Go initialises them in declaration order
		src = "package main\n\nimport \"fmt\"\n\nfunc f(s string, n int) string {\n\tfmt.Println(\"init\", s, n)\n\treturn s\n}\n\nvar a = f(\"a\", " + c.P["n"] + ")\n\nfunc main() {\n\tfmt.Println(c, b, a)\n}\n\nvar b = f(\"b\", 2)\n\nvar c = f(\"c\", 3)\n"
		info["probe"] = "package-var-initialisation-order"
		r.Cover("kind:init-order-probe")
	}
	if c.Kind == "constconv" {
		var id string
		id, src = constConvProgram(c)
		info["probe"] = "constant-conversion:" + id
		r.Cover("kind:constant-conversion-probe")
	}
	if err := goTypeCheck(p.Env.Repo, map[string]string{"main.go": src}); err != nil {
		r.Skip("generator-produced-ill-typed-go")
		return
	}
	r.Cover("go-accepted")
	for _, f := range []string{"defer ", "recover()", "switch ", ".(type)", "goto ", "continue L", "break L", "func(", "...", "range ", "select ", "go func", "chan ", "struct{", "map[", "[]", "iota", "interface{", "fallthrough"} {
		if strings.Contains(src, f) {
			r.Cover("feature:" + strings.TrimSpace(f))
		}
	}
	pairWorker(p.Env, p.Id, c, r, pairBuild{
		Ref:  map[string]string{"main.go": src},
		XGo:  map[string]string{"main.xgo": src},
		Info: info,
	})
}

func (p *c01) PostRun(env *fw.Env, d *fw.Driver) {
	pairPostRun(env, d, p.Id, nil)
}
