package checks

import (
	"bytes"
	"fmt"
	"strings"

	"github.com/goplus/xgo/ast"
	"github.com/goplus/xgo/format"
	"github.com/goplus/xgo/parser"
	"github.com/goplus/xgo/scanner"
	"github.com/goplus/xgo/token"

	"verif/fw"
	"verif/oracle"
)

// C19 / C20 / C21 — the formatter preserves the tree, is idempotent and keeps every comment in order.
type cfmt struct {
	Base
	which string // tree | idem | comments
	nPool int
}

func init() {
	fw.Register(&cfmt{Base: Base{Id: "C19", Lvl: "exploration"}, which: "tree"})
	fw.Register(&cfmt{Base: Base{Id: "C20", Lvl: "exploration"}, which: "idem"})
	fw.Register(&cfmt{Base: Base{Id: "C21", Lvl: "exploration"}, which: "comments"})
}

func (p *cfmt) Setup(env *fw.Env) error {
	p.Env = env
	p.nPool = len(validXGoPool(env))
	extra := env.Pick(5000, 150000)
	if p.which == "comments" {
		extra = env.Pick(12000, 600000)
	}
	p.N = p.nPool + extra
	src := fmt.Sprintf("every repository XGo/class file and harvested test snippet that parses (%d), then generated XGo / class / Go files (syntactic generator covering all Go and XGo node kinds) and re-spaced variants", p.nPool)
	switch p.which {
	case "tree":
		p.RuleS = src + ". Oracle: format.Source succeeds, its output parses without error and is shape-equal (reflection comparator ignoring positions, comments, resolver data; numeric literals by value; imports of a declaration as a set; redundant parentheses and empty statements ignored — gofmt conventions inherited by the formatter) to the tree of the input. Non-trivial = source with >=12 tokens; distinct by source text."
	case "idem":
		p.RuleS = src + ", tightened variants (optional blanks next to punctuation removed) and files of one-line functions / function literals whose printed width lies around the printer's 100-column limit, spelled with and without the optional blanks, and files in compact layouts (compound statements, struct types, literals and declaration groups written on one source line or broken in unusual places, with trailing and leading comments and blank lines in between). Oracle: format.Source(format.Source(x)) == format.Source(x) byte for byte. Non-trivial = source with >=12 tokens."
	default:
		p.RuleS = src + "; most cases additionally get 1..4 uniquely numbered comments (/*cN*/, //cN, #cN, multi-line) injected at random token boundaries (kept iff the source still parses). Oracle: the sequence of comment texts (scanner, normalised by trimming and removing block-comment re-indentation) of the output equals that of the input: every comment exactly once, same order. Non-trivial = source with >=1 comment."
	}
	p.Assume = []string{"sources whose parse fails are discarded (domain = syntactically valid)", "formatter runs in crash-isolated workers (it can terminate the process)"}
	p.Floor = map[string]int{"#evaluations": p.N / 2, "#nontrivial": 2000, "formatted": p.N / 2, "kind:corpus": 500, "kind:gen-xgo": 300, "kind:gen-class": 100, "kind:gen-go": 100}
	if p.which == "idem" {
		p.Floor["kind:near-limit-one-liner"] = extra / 20
		p.Floor["kind:tightened"] = extra / 20
		p.Floor["kind:compact-layout"] = extra / 20
	}
	if p.which == "comments" {
		p.Floor["kind:inject"] = 2000
		p.Floor["comments-compared"] = 10000
	}
	for _, k := range []string{"LambdaExpr", "LambdaExpr2", "ComprehensionExpr", "ForPhraseStmt", "ErrWrapExpr", "RangeExpr", "SliceLit", "SendStmt", "EnvExpr", "DomainTextLit", "NumberUnitLit", "CallExpr", "FuncLit", "CompositeLit", "TypeSwitchStmt", "SelectStmt", "OverloadFuncDecl", "MatrixLit"} {
		if p.which != "comments" {
			p.Floor["node:"+k] = 5
		}
	}
	return nil
}

func (p *cfmt) Case(i int) fw.Case {
	if i < p.nPool {
		return fw.Case{Kind: "corpus", P: map[string]string{"i": fmt.Sprint(i)}}
	}
	r := p.rnd(i)
	var it srcItem
	var kind string
	if p.which == "comments" && !r.Chance(1, 5) { // comment injection belongs to C21's quantifier only
		pool := validXGoPool(p.Env)
		base := fw.Pick(r, pool)
		if r.Bool() {
			for {
				b2, k2 := astSource(p.Env, r, 1<<30)
				if k2 != "inject" { // the base must be free of injected comments
					base = b2
					break
				}
			}
		}
		injs := drawInjections(r, base.Src, r.Range(1, 4))
		c := fw.Case{Kind: "inject", In: applyInjections(base.Src, injs), Aux: append([]string{string(base.Src)}, injs...)}
		if base.Class {
			c.P = map[string]string{"class": "1"}
		}
		return c
	} else if p.which == "idem" && r.Chance(1, 8) {
		// one-line functions whose header + body is close to the printer's 100-column limit, spelled with and
		// without the optional blanks (layout decisions must not depend on how the source was spaced)
		return fw.Case{Kind: "near-limit-one-liner", In: []byte(nearLimitOneLiners(r))}
	} else if p.which == "idem" && r.Chance(1, 7) {
		return fw.Case{Kind: "compact-layout", In: []byte(compactLayouts(r))}
	} else {
		for {
			it, kind = astSource(p.Env, r, 1<<30)
			if kind != "inject" {
				break
			}
		}
		if p.which == "idem" && r.Chance(1, 4) {
			t := tighten(it.Src)
			if _, _, ok := parseValid(srcItem{Name: it.Name, Src: t, Class: it.Class}); ok {
				it.Src, kind = t, "tightened"
			}
		}
	}
	c := fw.Case{Kind: kind, In: it.Src}
	if it.Class {
		c.P = map[string]string{"class": "1"}
	}
	return c
}

// drawInjections draws k comment insertions "offset|text" at token boundaries of src.
func drawInjections(r *fw.Rand, src []byte, k int) []string {
	toks := scanTokens(src, true)
	if len(toks) == 0 {
		return nil
	}
	var out []string
	for i := 0; i < k; i++ {
		t := toks[r.Intn(len(toks))]
		off := t.off
		if r.Bool() {
			off = t.end
		}
		id := "c" + string(rune('0'+i))
		long := strings.Repeat(string(rune('a'+i)), 50+r.Intn(60))
		out = append(out, fmt.Sprintf("%d|%s", off, fw.Pick(r, []string{"/*" + id + "*/", " /*" + id + "*/ ", "//" + id + "\n", " // " + id + "\n", "#" + id + "\n", "/*" + id + "\n" + id + "*/", "/*" + id + " " + long + "*/", " /* " + id + " " + long + " */ ",
			// star-bordered block comments (continuation lines starting with '*' in the first column or after a blank)
			"/*" + id + "\n\"" + id + "\" */", "/*" + id + "\n* " + id + "\n*/", "/*" + id + "\n * " + id + "\n */", "/**\n** " + id + "\n**/", " /*" + id + "\n*" + id + "*/ "})))
	}
	return out
}

func applyInjections(src []byte, injs []string) []byte {
	type ins struct {
		off int
		txt string
	}
	var list []ins
	for _, s := range injs {
		i := strings.IndexByte(s, '|')
		var off int
		fmt.Sscan(s[:i], &off)
		list = append(list, ins{off, s[i+1:]})
	}
	// stable: apply from the back; equal offsets keep their order
	b := append([]byte(nil), src...)
	for n := len(list); n > 0; n-- {
		hi := 0
		for j := 1; j < n; j++ {
			if list[j].off >= list[hi].off {
				hi = j
			}
		}
		in := list[hi]
		list = append(list[:hi], list[hi+1:]...)
		if in.off > len(b) {
			in.off = len(b)
		}
		b = append(b[:in.off], append([]byte(in.txt), b[in.off:]...)...)
	}
	return b
}

var xgoOnlyKinds = map[string]bool{"EnvExpr": true, "LambdaExpr": true, "LambdaExpr2": true, "ComprehensionExpr": true, "ForPhrase": true, "ForPhraseStmt": true, "ErrWrapExpr": true,
	"SliceLit": true, "MatrixLit": true, "RangeExpr": true, "DomainTextLit": true, "SendStmt": true, "NumberUnitLit": true, "ElemEllipsis": true, "OverloadFuncDecl": true, "CommandCall": true, "InterpolatedString": true}

// injectionSite describes where a comment was injected: innermost node kind of the comment-free tree, and for Go
// node kinds also the neighbouring token kinds and the comment style.
func injectionSite(base srcItem, inj string) string {
	i := strings.IndexByte(inj, '|')
	var off int
	fmt.Sscan(inj[:i], &off)
	txt := strings.TrimSpace(inj[i+1:])
	style := "block"
	switch {
	case strings.HasPrefix(txt, "//"):
		style = "line"
	case strings.HasPrefix(txt, "#"):
		style = "sharp"
	case strings.Contains(txt, "\n"):
		style = "multiline"
	}
	kind := "File"
	if f, fset, ok := parseValid(base); ok {
		b := fset.File(f.Pos()).Base()
		best := 1 << 30
		oracle.Walk(f, oracle.WalkOpts{}, func(n oracle.Node, _ int) bool {
			if !n.Pos().IsValid() {
				return true
			}
			lo, hi := int(n.Pos())-b, int(n.End())-b
			if lo < off && off < hi && hi-lo <= best { // the comment lies strictly inside this node
				best = hi - lo
				kind = oracle.Kind(n)
				if ce, ok := n.(*ast.CallExpr); ok && ce.IsCommand() {
					kind = "CommandCall"
				}
				if bl, ok := n.(*ast.BasicLit); ok && bl.Extra != nil {
					kind = "InterpolatedString"
				}
			}
			return lo <= off && off <= hi || hi-lo > best
		})
	}
	if xgoOnlyKinds[kind] {
		return "in:" + kind
	}
	prev, next := "BOF", "EOF"
	for _, t := range scanTokens(base.Src, false) {
		name := t.tok.String()
		if t.end <= off {
			prev = name
		}
		if t.off >= off {
			next = name
			break
		}
	}
	return "in:" + kind + "@" + prev + "|" + next + ":" + style
}

func commentTexts(src []byte) ([]string, bool) {
	fset := token.NewFileSet()
	file := fset.AddFile("a.xgo", -1, len(src))
	var s scanner.Scanner
	ok := true
	defer func() {
		if recover() != nil {
			ok = false
		}
	}()
	s.Init(file, src, nil, scanner.ScanComments)
	var out []string
	for n := 0; n < len(src)+4; n++ {
		_, tok, lit := s.Scan()
		if tok == token.EOF {
			break
		}
		if tok == token.COMMENT {
			out = append(out, normComment(lit))
		}
	}
	return out, ok
}

// normComment right-trims lines and removes leading indentation of continuation lines of block comments.
func normComment(c string) string {
	lines := strings.Split(c, "\n")
	for i, l := range lines {
		l = strings.TrimRight(l, " \t\r")
		if i > 0 {
			l = strings.TrimLeft(l, " \t")
		}
		lines[i] = l
	}
	return strings.Join(lines, "\n")
}

func (p *cfmt) Run(c fw.Case, r *fw.Rec) {
	it := srcItem{Src: c.In, Class: c.P["class"] == "1"}
	if c.Kind == "corpus" {
		var i int
		fmt.Sscan(c.P["i"], &i)
		it = validXGoPool(p.Env)[i]
	}
	if c.Kind == "inject" && len(c.Aux) > 1 {
		// judge on a scratch recorder first; on failure shrink the set of injected comments and name the site after
		// the place(s) of the comments that are needed to fail
		probe := fw.NewScratchRec(c)
		p.eval(c, it, probe)
		if !probe.Failed() {
			p.eval(c, it, r)
			return
		}
		base := srcItem{Name: it.Name, Class: it.Class, Src: []byte(c.Aux[0])}
		injs := c.Aux[1:]
		best := injs
		found := false
		for size := 1; size < len(injs) && !found; size++ {
			for _, sub := range subsets(injs, size) {
				pr := fw.NewScratchRec(c)
				p.eval(c, srcItem{Name: it.Name, Class: it.Class, Src: applyInjections(base.Src, sub)}, pr)
				if pr.Failed() {
					best, found = sub, true
					break
				}
			}
		}
		var where []string
		for _, in := range best {
			where = append(where, injectionSite(base, in))
		}
		sortStrings(where)
		uniq := where[:0]
		for i, w := range where {
			if i == 0 || w != where[i-1] {
				uniq = append(uniq, w)
			}
		}
		where = uniq
		min := srcItem{Name: it.Name, Class: it.Class, Src: applyInjections(base.Src, best)}
		pr := fw.NewScratchRec(c)
		p.eval(c, min, pr)
		site, msg := pr.First()
		if site == "" {
			site, msg = probe.First()
		}
		if strings.HasPrefix(site, "crash") || strings.Contains(site, "panic") {
			r.Fail(site, "%s", msg)
			return
		}
		if site == "format:comment-glued-to-division-operator" {
			r.Fail(site, "minimal comment injection %q (at %s) into\n%s\n%s", best, strings.Join(where, "+"), clip(base.Src, 500), msg)
			return
		}
		r.Fail("format:comment-"+strings.Join(where, "+"), "[%s] minimal comment injection %q into\n%s\n%s", site, best, clip(base.Src, 500), msg)
		return
	}
	p.eval(c, it, r)
}

func subsets(xs []string, k int) [][]string {
	var out [][]string
	var rec func(start int, cur []string)
	rec = func(start int, cur []string) {
		if len(cur) == k {
			out = append(out, append([]string(nil), cur...))
			return
		}
		for i := start; i < len(xs); i++ {
			rec(i+1, append(cur, xs[i]))
		}
	}
	rec(0, nil)
	return out
}

func (p *cfmt) eval(c fw.Case, it srcItem, r *fw.Rec) {
	f0, _, ok := parseValid(it)
	if !ok {
		r.Skip("source-invalid")
		return
	}
	r.Cover("kind:" + c.Kind)
	kinds := map[string]int{}
	oracle.CountNodes(f0, kinds)
	var out []byte
	var err error
	if fw.Guard(r, "format.Source", func() { out, err = format.Source(it.Src, it.Class, it.Name) }) {
		return
	}
	if err != nil {
		r.Fail("format:error-on-valid-source", "format.Source failed on a source that parses: %v", err)
		return
	}
	r.Cover("formatted")
	for k := range kinds {
		r.Cover("node:" + k)
	}
	ntok := len(scanTokens(it.Src, false))
	switch p.which {
	case "tree":
		it2 := srcItem{Name: it.Name, Src: out, Class: it.Class}
		f1, _, perr, pk := safeParse(it2, parser.ParseComments)
		if pk != nil || perr != nil {
			r.Fail("format:output-does-not-parse", "formatted output does not parse: %v %v\n--- output ---\n%s", perr, pk, clip(out, 1200))
			return
		}
		if d := oracle.ShapeDiff(f0, f1, oracle.ShapeOpts{LiteralByValue: true, SortImports: true, IgnoreParens: true, DropEmptyStmt: true}); d != "" {
			r.Fail("format:tree-changed:"+shapeSite(d), "formatting changed the syntax tree: %s\n--- input ---\n%s\n--- output ---\n%s", d, clip(it.Src, 800), clip(out, 800))
			return
		}
	case "idem":
		var out2 []byte
		if fw.Guard(r, "format.Source(2)", func() { out2, err = format.Source(out, it.Class, it.Name) }) {
			return
		}
		if err != nil {
			r.Fail("format:second-pass-error", "formatting the formatted output failed: %v\n--- first output ---\n%s", err, clip(out, 1200))
			return
		}
		if !bytes.Equal(out, out2) {
			r.Fail("format:not-idempotent:"+nodeChainAt(srcItem{Name: it.Name, Class: it.Class, Src: out}, firstDiffOffset(out, out2)), "second formatting pass changes the text (%s)\n%s", firstDiffKind(out, out2), diffAt(out, out2))
			return
		}
	case "comments":
		in, ok1 := commentTexts(it.Src)
		got, ok2 := commentTexts(out)
		if !ok1 || !ok2 {
			r.Skip("comment-scan-failed")
			return
		}
		r.CoverN("comments-compared", len(in))
		if strings.Join(in, "\x00") != strings.Join(got, "\x00") {
			msg := "comments differ"
			site := "format:comments-changed"
			switch {
			case len(got) < len(in):
				site, msg = "format:comment-lost", fmt.Sprintf("%d comments in, %d out", len(in), len(got))
			case len(got) > len(in):
				site, msg = "format:comment-duplicated", fmt.Sprintf("%d comments in, %d out", len(in), len(got))
			default:
				site = "format:comment-reordered-or-altered"
				// one recognisable root cause: a line comment flushed directly behind a '/' operator (no blank), so
				// that its text gains a slash
			}
			// one recognisable root cause: a comment flushed directly behind a '/' operator (no blank), so that its
			// text gains a slash (`/` + `//c` = `///c`, `/` + `/*c…` = `//*c`)
			for _, g := range got {
				for _, c := range in {
					first := c
					if i := strings.IndexByte(c, '\n'); i >= 0 {
						first = c[:i]
					}
					if g == "/"+first || g == "/"+c {
						site = "format:comment-glued-to-division-operator"
					}
				}
			}
			r.Fail(site, "%s\n in: %q\nout: %q\n--- input ---\n%s\n--- output ---\n%s", msg, in, got, clip(it.Src, 700), clip(out, 700))
			return
		}
		if len(in) >= 1 {
			r.NonTrivial()
		}
		if c.Kind == "inject" && len(it.Src) < 300 {
			r.Sample(string(it.Src))
		}
		return
	}
	if ntok >= 12 {
		r.NonTrivial()
		if c.Kind != "corpus" && len(it.Src) < 250 {
			r.Sample(string(it.Src))
		}
	}
}

func clip(b []byte, n int) string {
	if len(b) > n {
		return string(b[:n]) + "…"
	}
	return string(b)
}

// shapeSite turns a diff path into a stable site: the field path without indices.
func shapeSite(d string) string {
	if i := strings.Index(d, ":"); i > 0 {
		d = d[:i]
	}
	var b strings.Builder
	skip := false
	for _, c := range d {
		switch {
		case c == '[':
			skip = true
		case c == ']':
			skip = false
		case !skip:
			b.WriteRune(c)
		}
	}
	s := b.String()
	parts := strings.Split(s, ".")
	if len(parts) > 3 {
		parts = parts[len(parts)-3:]
	}
	return strings.Join(parts, ".")
}

func firstDiffKind(a, b []byte) string {
	i := 0
	for i < len(a) && i < len(b) && a[i] == b[i] {
		i++
	}
	ch := func(x []byte) string {
		if i >= len(x) {
			return "EOF"
		}
		switch x[i] {
		case ' ', '\t':
			return "blank"
		case '\n':
			return "newline"
		case '(', ')':
			return "paren"
		case '/':
			return "comment"
		}
		return "text"
	}
	return ch(a) + "->" + ch(b)
}

func diffAt(a, b []byte) string {
	i := 0
	for i < len(a) && i < len(b) && a[i] == b[i] {
		i++
	}
	lo := i - 120
	if lo < 0 {
		lo = 0
	}
	ha, hb := i+120, i+120
	if ha > len(a) {
		ha = len(a)
	}
	if hb > len(b) {
		hb = len(b)
	}
	return fmt.Sprintf("first difference at byte %d\n--- pass 1 ---\n%s\n--- pass 2 ---\n%s", i, a[lo:ha], b[lo:hb])
}

func firstDiffOffset(a, b []byte) int {
	i := 0
	for i < len(a) && i < len(b) && a[i] == b[i] {
		i++
	}
	return i
}

// nodeChainAt names the innermost node kinds (up to 3 levels, innermost first) whose span contains offset off.
func nodeChainAt(it srcItem, off int) string {
	f, fset, ok := parseValid(it)
	if !ok {
		return "unparseable-output"
	}
	b := fset.File(f.Pos()).Base()
	var chain []string
	oracle.Walk(f, oracle.WalkOpts{}, func(n oracle.Node, _ int) bool {
		if !n.Pos().IsValid() {
			return true
		}
		lo, hi := int(n.Pos())-b, int(n.End())-b
		if lo <= off && off <= hi {
			k := oracle.Kind(n)
			if ce, ok := n.(*ast.CallExpr); ok && ce.IsCommand() {
				k = "CommandCall"
			}
			chain = append(chain, k)
			return true
		}
		return false
	})
	if len(chain) > 3 {
		chain = chain[len(chain)-3:]
	}
	for i, j := 0, len(chain)-1; i < j; i, j = i+1, j-1 {
		chain[i], chain[j] = chain[j], chain[i]
	}
	return "in:" + strings.Join(chain, "<")
}

// tighten removes the blanks (not newlines) next to punctuation tokens: `f(a, b int) int {` -> `f(a,b int)int{`.
func tighten(src []byte) []byte {
	toks := scanTokens(src, true)
	if len(toks) < 2 {
		return src
	}
	punct := func(b byte) bool { return strings.IndexByte(",()[]{};", b) >= 0 }
	var b strings.Builder
	b.Write(src[:toks[0].off])
	for i, t := range toks {
		b.Write(src[t.off:t.end])
		if i+1 == len(toks) {
			b.Write(src[t.end:])
			break
		}
		gap := string(src[t.end:toks[i+1].off])
		if strings.Trim(gap, " \t") == "" && gap != "" && t.end > t.off && (punct(src[t.end-1]) || punct(src[toks[i+1].off])) {
			gap = ""
		}
		b.WriteString(gap)
	}
	return []byte(b.String())
}

// nearLimitOneLiners writes a file of one-line functions and function literals whose printed width lies between 90
// and 112 columns, each in a canonical and in a tight spelling.
func nearLimitOneLiners(r *fw.Rand) string {
	var b strings.Builder
	for k := 0; k < 6; k++ {
		nparams := r.Range(2, 6)
		var ps []string
		for i := 0; i < nparams; i++ {
			ps = append(ps, fmt.Sprintf("%s%d", strings.Repeat("p", r.Range(1, 6)), i))
		}
		body := "return " + strings.Join(ps, " + ")
		pad := r.Range(0, 40)
		name := "f" + strings.Repeat("x", pad) + fmt.Sprint(k)
		tight := r.Bool()
		sep, sp := ", ", " "
		if tight {
			sep, sp = ",", ""
		}
		switch r.Intn(3) {
		case 0:
			fmt.Fprintf(&b, "func %s(%s int)%sint%s{%s%s%s}\n\n", name, strings.Join(ps, sep), sp, sp, sp, body, sp)
		case 1:
			fmt.Fprintf(&b, "var %s = func(%s int)%sint%s{%s%s%s}\n\n", name, strings.Join(ps, sep), sp, sp, sp, body, sp)
		default:
			fmt.Fprintf(&b, "func %s(%s int)%s(n int,%serr error)%s{%sn = %s; return%s}\n\n", name, strings.Join(ps, sep), sp, sp, sp, sp, strings.Join(ps, " + "), sp)
		}
	}
	return b.String()
}

// compactLayouts writes functions, type and value declarations in layouts the formatter has to change: compound
// statements, composite literals, struct types and parameter lists spelled on one source line (the printer expands
// most of them), with and without trailing comments on the same and on the following line, blank lines and
// stand-alone comment lines in between. Layout decisions that consult source lines see different lines on the
// second pass.
func compactLayouts(r *fw.Rand) string {
	var b strings.Builder
	nc := 0
	cmt := func() string {
		nc++
		switch r.Intn(8) {
		case 0, 1, 2:
			return fmt.Sprintf(" // c%d", nc)
		case 3:
			return fmt.Sprintf(" /* c%d */", nc)
		case 4:
			return fmt.Sprintf("\t// c%d %s", nc, strings.Repeat("w", r.Range(1, 30)))
		}
		nc--
		return ""
	}
	simple := func(k int) string {
		switch r.Intn(9) {
		case 0:
			return fmt.Sprintf("n%d := %d", k, r.Intn(100))
		case 1:
			return fmt.Sprintf("println n, %d", k)
		case 2:
			return fmt.Sprintf("n += %d", k)
		case 3:
			return fmt.Sprintf("total%d := n * %d", k, r.Range(2, 9))
		case 4:
			return fmt.Sprintf("var v%d, w%d = %d, \"s\"", k, k, k)
		case 5:
			return fmt.Sprintf("xs <- %d", k)
		case 6:
			return fmt.Sprintf("m%d := {\"a\": %d, \"bbb\": %d}", k, k, k+1)
		case 7:
			return fmt.Sprintf("fmt.Println(n, xs, %d)", k)
		default:
			return "n++"
		}
	}
	var stmt func(k, depth int) string
	oneLine := func(k, depth int) string {
		s := simple(k)
		switch r.Intn(12) {
		case 0, 1:
			return fmt.Sprintf("if n > %d { %s }", k, s)
		case 2:
			return fmt.Sprintf("if n > %d { %s } else { %s }", k, s, simple(k+50))
		case 3:
			return fmt.Sprintf("for x in xs { %s; _ = x }", s)
		case 4:
			return fmt.Sprintf("for i := 0; i < %d; i++ { %s }", k, s)
		case 5:
			return fmt.Sprintf("for _, x := range xs { _ = x; %s }", s)
		case 6:
			return fmt.Sprintf("func() { %s }()", s)
		case 7:
			return fmt.Sprintf("switch n { case %d: %s; default: n-- }", k, s)
		case 8:
			return fmt.Sprintf("L%d: for { break L%d }", k, k)
		case 9:
			return fmt.Sprintf("{ %s }", s)
		case 10:
			return fmt.Sprintf("defer func() { %s }()", s)
		default:
			return fmt.Sprintf("pt%d := struct{ a int; bb string }{a: %d, bb: \"x\"}; _ = pt%d", k, k, k)
		}
	}
	stmt = func(k, depth int) string {
		switch r.Intn(10) {
		case 0, 1, 2, 3:
			return oneLine(k, depth)
		case 4:
			if depth < 2 {
				return fmt.Sprintf("if n < %d {\n%s%s\n%s%s\n}", k, stmt(k+100, depth+1), cmt(), stmt(k+200, depth+1), cmt())
			}
		case 5:
			if depth < 2 {
				return fmt.Sprintf("for n < %d {\n%s%s\nbreak\n}", k, stmt(k+100, depth+1), cmt())
			}
		}
		return simple(k)
	}
	b.WriteString("import \"fmt\"\n\n")
	nf := r.Range(1, 3)
	for f := 0; f < nf; f++ {
		switch r.Intn(5) {
		case 0:
			fmt.Fprintf(&b, "type T%d struct { a int%s\nbb string%s\n}\n\n", f, cmt(), cmt())
		case 1:
			fmt.Fprintf(&b, "var (\n\ta%d = %d%s\n\tbbbb%d = []int{1, 2,\n3}%s\n\tc%d = 1%s\n)\n\n", f, f, cmt(), f, cmt(), f, cmt())
		case 2:
			fmt.Fprintf(&b, "const ( A%d = iota%s\nBBB%d%s\n)\n\n", f, cmt(), f, cmt())
		}
		fmt.Fprintf(&b, "func f%d(xs []int, n int) {\n", f)
		ns := r.Range(2, 8)
		for k := 0; k < ns; k++ {
			if r.Chance(1, 6) {
				b.WriteString("\n")
			}
			if r.Chance(1, 8) {
				nc++
				fmt.Fprintf(&b, "// lead%d\n", nc)
			}
			b.WriteString(stmt(f*1000+k, 0))
			b.WriteString(cmt())
			b.WriteString("\n")
		}
		b.WriteString("}\n\n")
	}
	return b.String()
}
