package checks
import ("testing";"fmt";"sort";"verif/fw";"verif/gen";"github.com/goplus/xgo/parser")
func TestSyn(t *testing.T){
 ok,bad:=0,0
 errs:=map[string]int{}
 ex:=map[string]string{}
 for i:=0;i<3000;i++{
   r:=fw.NewRand(uint64(i)*7919+1)
   g:=&gen.XSyn{R:r}
   var src string
   it:=srcItem{}
   switch i%3 { case 0: src=g.File(false); case 1: src=g.File(true); it.Class=true; default: src=g.GoFile() }
   it.Src=[]byte(src)
   _,_,err,pk:=safeParse(it, parser.ParseComments)
   if pk!=nil { errs["PANIC "+fmt.Sprint(pk)]++; ex["PANIC "+fmt.Sprint(pk)]=src; bad++; continue}
   if err==nil {ok++} else {bad++; m:=err.Error(); if len(m)>70 {m=m[:70]}; 
     for j:=0;j<len(m);j++{ if m[j]==' ' { m=m[j:]; break } }
     errs[m]++; ex[m]=src+"\n--> "+err.Error()}
 }
 fmt.Println("ok",ok,"bad",bad)
 type kv struct{k string;v int}; var l []kv
 for k,v:=range errs{l=append(l,kv{k,v})}
 sort.Slice(l,func(i,j int)bool{return l[i].v>l[j].v})
 for i,e:=range l{ if i>8{break}; fmt.Println(e.v,e.k); if i<5 {fmt.Println("   EX:",ex[e.k])} }
}
