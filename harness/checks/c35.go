package checks

import (
	"fmt"
	"strings"

	"github.com/goplus/xgo/x/xgoprojs"

	"verif/fw"
)

// C35 — project arguments are partitioned in order (exhaustive over a class-complete alphabet).
type c35 struct {
	Base
	maxLen int
}

func init() { fw.Register(&c35{Base: Base{Id: "C35", Lvl: "exploration"}}) }

var c35Alpha = []string{"a.go", "./a.xgo", "d/x.gox", ".", "./d", "../d", "/abs", "C:\\d", "fmt", "a/b", "", "a.", ".hidden", "x@v1.2"}

// documented examples pinning the classification (F files, D local dir, P package path)
var c35Pinned = map[string]byte{"a.go": 'F', "./a.xgo": 'F', "d/x.gox": 'F', ".": 'D', "./d": 'D', "../d": 'D', "/abs": 'D', "C:\\d": 'D', "fmt": 'P', "a/b": 'P', "github.com/goplus/xgo/cl": 'P', "main.gox": 'F'}

func (p *c35) Setup(env *fw.Env) error {
	p.Env = env
	p.maxLen = env.Pick(5, 6)
	n, pw := 1, 1 // the empty list
	for l := 1; l <= p.maxLen; l++ {
		pw *= len(c35Alpha)
		n += pw
	}
	p.N = n + len(c35Pinned)
	p.RuleS = fmt.Sprintf("exhaustive: every argument list of length 0..%d over the %d-symbol class-complete alphabet %q; plus the pinned classification table. Classification of a single argument is taken from ParseOne on the singleton (the property is about partitioning) and pinned by 12 documented examples. Non-trivial = list with >=2 arguments.", p.maxLen, len(c35Alpha), c35Alpha)
	p.Assume = []string{"argument classes: file-like / local directory / package path as ParseOne classifies singletons"}
	p.Floor = map[string]int{"#evaluations": p.N, "mixed-error": 1000, "files-only": 100, "nonfiles-only": 1000, "run-merged": 1000}
	return nil
}

func (p *c35) Exhaustive() bool { return true }

func (p *c35) Case(i int) fw.Case {
	if i < len(c35Pinned) {
		keys := make([]string, 0, len(c35Pinned))
		for k := range c35Pinned {
			keys = append(keys, k)
		}
		sortStrings(keys)
		return fw.Case{Kind: "pinned", Aux: []string{keys[i]}}
	}
	i -= len(c35Pinned)
	if i == 0 {
		return fw.Case{Kind: "list"}
	}
	i--
	a := len(c35Alpha)
	l, pw := 1, a
	for i >= pw {
		i -= pw
		pw *= a
		l++
	}
	args := make([]string, l)
	for k := l - 1; k >= 0; k-- {
		args[k] = c35Alpha[i%a]
		i /= a
	}
	return fw.Case{Kind: "list", Aux: args}
}

func c35Class(arg string) (byte, error) {
	proj, next, err := xgoprojs.ParseOne(arg)
	if err != nil || len(next) != 0 {
		return 0, fmt.Errorf("ParseOne(%q) = %v, next=%v, err=%v", arg, proj, next, err)
	}
	switch v := proj.(type) {
	case *xgoprojs.FilesProj:
		if len(v.Files) != 1 || v.Files[0] != arg {
			return 0, fmt.Errorf("ParseOne(%q) FilesProj %v", arg, v.Files)
		}
		return 'F', nil
	case *xgoprojs.DirProj:
		if v.Dir != arg {
			return 0, fmt.Errorf("ParseOne(%q) DirProj %q", arg, v.Dir)
		}
		return 'D', nil
	case *xgoprojs.PkgPathProj:
		if v.Path != arg {
			return 0, fmt.Errorf("ParseOne(%q) PkgPathProj %q", arg, v.Path)
		}
		return 'P', nil
	}
	return 0, fmt.Errorf("ParseOne(%q): unknown project type %T", arg, proj)
}

func (p *c35) Run(c fw.Case, r *fw.Rec) {
	if c.Kind == "pinned" {
		arg := c.Aux[0]
		var cls byte
		var err error
		if fw.Guard(r, "xgoprojs.ParseOne", func() { cls, err = c35Class(arg) }) {
			return
		}
		if err != nil {
			r.Fail("projs:ParseOne-singleton", "%v", err)
			return
		}
		if cls != c35Pinned[arg] {
			r.Fail("projs:classification:"+arg, "argument %q classified %c, documented class %c", arg, cls, c35Pinned[arg])
		}
		r.NonTrivial()
		return
	}
	args := c.Aux
	// model
	type grp struct {
		cls  byte
		args []string
	}
	var want []grp
	hasF, hasN := false, false
	for _, a := range args {
		var cls byte
		var err error
		if fw.Guard(r, "xgoprojs.ParseOne", func() { cls, err = c35Class(a) }) {
			return
		}
		if err != nil {
			r.Fail("projs:ParseOne-singleton", "%v", err)
			return
		}
		if cls == 'F' {
			hasF = true
			if n := len(want); n > 0 && want[n-1].cls == 'F' {
				want[n-1].args = append(want[n-1].args, a)
				r.Cover("run-merged")
				continue
			}
		} else {
			hasN = true
		}
		want = append(want, grp{cls, []string{a}})
	}
	var projs []xgoprojs.Proj
	var err error
	in := append([]string(nil), args...)
	if fw.Guard(r, "xgoprojs.ParseAll", func() { projs, err = xgoprojs.ParseAll(in...) }) {
		return
	}
	if len(args) >= 2 {
		r.NonTrivial()
	}
	mixed := hasF && hasN
	if mixed {
		r.Cover("mixed-error")
		if err != xgoprojs.ErrMixedFilesProj {
			r.Fail("projs:mixed-not-reported", "ParseAll(%q): file and non-file projects both occur but err=%v", args, err)
		}
		return
	}
	if err != nil {
		r.Fail("projs:unexpected-error", "ParseAll(%q) = error %v, but the list is not mixed", args, err)
		return
	}
	if hasF {
		r.Cover("files-only")
	} else {
		r.Cover("nonfiles-only")
	}
	var got []grp
	for _, pj := range projs {
		switch v := pj.(type) {
		case *xgoprojs.FilesProj:
			got = append(got, grp{'F', v.Files})
		case *xgoprojs.DirProj:
			got = append(got, grp{'D', []string{v.Dir}})
		case *xgoprojs.PkgPathProj:
			got = append(got, grp{'P', []string{v.Path}})
		}
	}
	render := func(gs []grp) string {
		var b strings.Builder
		for _, g := range gs {
			fmt.Fprintf(&b, "%c%q ", g.cls, g.args)
		}
		return b.String()
	}
	if render(got) != render(want) {
		r.Fail("projs:partition-differs", "ParseAll(%q) = %s want %s", args, render(got), render(want))
		return
	}
	for k, a := range in {
		if a != args[k] {
			r.Fail("projs:input-mutated", "ParseAll modified its argument slice")
		}
	}
	if len(args) == 4 {
		r.Sample(map[string]any{"args": args, "projects": render(got)})
	}
}
