package checks

import (
	"fmt"
	goscanner "go/scanner"
	"sort"
	"strings"

	"github.com/goplus/xgo/ast"
	"github.com/goplus/xgo/parser"
	"github.com/goplus/xgo/parser/fsx/memfs"
	"github.com/goplus/xgo/token"

	"verif/fw"
	"verif/gen"
	"verif/oracle"
)

// C13 — the parser never panics or hangs and reports sorted errors.
type c13 struct {
	Base
	pool []srcItem
	nDet int
}

func init() { fw.Register(&c13{Base: Base{Id: "C13", Lvl: "exploration"}}) }

var c13Modes = []parser.Mode{0, parser.ParseComments, parser.AllErrors, parser.DeclarationErrors, parser.ImportsOnly, parser.PackageClauseOnly,
	parser.ParseComments | parser.AllErrors, parser.ParseComments | parser.AllErrors | parser.DeclarationErrors, parser.ImportsOnly | parser.ParseComments,
	parser.ParseGoAsGoPlus, parser.ParseGoAsGoPlus | parser.AllErrors | parser.ParseComments}

// regression inputs (always part of the case list)
var c13Regress = []string{
	"x := {1, 2 for a <- b}",
	"for a, b, c <- x {}",
	"x := [1, 2 for a <- b]",
	"var a [\n1, 2\n3, 4]",
	"#",
	"#\nfoo",
	"echo ${",
	"echo \"${\"",
	"x := a.b.(",
	"func (",
	"type T struct { a, b",
	"a <- b...",
	"var f = x => { goto L }",
	"var f = x => {\nL: goto L }",
	"var f = x => { for { break L } }",
	"x := (a, (b, c)) => 1",
	"x := (a, (b, c) if => 1",
	"x := huh`> (\n`",
	"echo tpl`> ,\nx`",
	"x := [\n1, 2\n3, 4\n]",
}

func (p *c13) Setup(env *fw.Env) error {
	p.Env = env
	p.pool = xgoPool(env)
	p.nDet = len(c13Regress) + 8*4
	p.N = p.nDet + env.Pick(60000, 3000000)
	p.RuleS = "inputs: regression list; deep nesting (8 shapes x 4 depths up to 2000 quick / 20000 thorough); token soup over the full Go+XGo lexeme tables; random bytes; byte-mutated windows and comment-injected variants of repository XGo files and harvested test snippets. Each input is parsed in one of 11 mode combinations as file / class file / expression (ParseExpr, ParseExprFrom) / directory entry (ParseFSDir over an in-memory FS). Non-trivial = parse reached >=8 parser steps; distinct by input+mode+entry."
	p.Assume = []string{"hang verdicts are logical: the verif step hook (next0/error/advance/parseStmt/parseOperand) must stay below 64*(len(src)+16) steps; the wall-clock watchdog only yields inconclusive",
		"nesting deeper than the bound is not explored (the Go runtime's 1 GB stack limit makes unbounded nesting a fatal error in go/parser-style recursive descent; go/parser caps at 100000)"}
	p.Floor = map[string]int{"#evaluations": p.N / 2, "#nontrivial": 10000, "outcome:no-error": p.N / 50, "outcome:errors": p.N / 10,
		"entry:file": 1000, "entry:class": 1000, "entry:expr": 1000, "entry:exprfrom": 1000, "entry:fsdir": 1000, "errors-sorted-checked": 1000, "bad-node-free-checked": 500}
	return nil
}

func (p *c13) Case(i int) fw.Case {
	entries := []string{"file", "file", "file", "class", "expr", "exprfrom", "fsdir"}
	if i < len(c13Regress) {
		return fw.Case{Kind: "regress", In: []byte(c13Regress[i]), P: map[string]string{"mode": "1", "entry": "file"}}
	}
	if i < p.nDet {
		k := i - len(c13Regress)
		depths := []int{10, 100, 1000, p.Env.Pick(2000, 20000)}
		return fw.Case{Kind: "nest", In: []byte(gen.Nest(k/4, depths[k%4])), P: map[string]string{"mode": "0", "entry": "file"}}
	}
	r := p.rnd(i)
	var in []byte
	kind := ""
	switch r.Intn(14) {
	case 10, 11, 12:
		kind = "tokmut"
		var base []byte
		if r.Bool() {
			base = []byte((&gen.XSyn{R: r}).File(r.Chance(1, 4)))
		} else {
			base = gen.Window(r, fw.Pick(r, p.pool).Src, 600)
		}
		in = tokenMutate(r, base, 3)
	case 13:
		kind = "gen"
		in = []byte((&gen.XSyn{R: r}).File(r.Chance(1, 4)))
	case 0, 1, 2:
		kind = "soup"
		in = []byte(gen.LexStream(r, r.Range(1, 30), false, true))
	case 3:
		kind = "bytes"
		in = gen.RandBytes(r, 64)
	case 4:
		kind = "inject"
		it := fw.Pick(r, p.pool)
		in = injectComments(r, gen.Window(r, it.Src, 400), r.Range(1, 3))
	default:
		kind = "mut"
		it := fw.Pick(r, p.pool)
		o := fw.Pick(r, p.pool)
		in = gen.Mutate(r, gen.Window(r, it.Src, 500), o.Src, 4)
	}
	return fw.Case{Kind: kind, In: in, P: map[string]string{"mode": fmt.Sprint(r.Intn(len(c13Modes))), "entry": fw.Pick(r, entries)}}
}

// injectComments inserts k comments at random byte offsets that are at token-ish boundaries.
func injectComments(r *fw.Rand, src []byte, k int) []byte {
	b := append([]byte(nil), src...)
	for i := 0; i < k; i++ {
		p := r.Intn(len(b) + 1)
		c := fw.Pick(r, []string{"/*c*/", "//c\n", "#c\n", "/*c\nd*/", " /*c*/ "})
		b = append(b[:p], append([]byte(c), b[p:]...)...)
	}
	return b
}

func sortedErrs(err error) (bool, int) {
	el, ok := err.(goscanner.ErrorList)
	if !ok {
		return true, 0
	}
	return sort.SliceIsSorted(el, func(i, j int) bool {
		a, b := el[i].Pos, el[j].Pos
		if a.Filename != b.Filename {
			return a.Filename < b.Filename
		}
		if a.Line != b.Line {
			return a.Line < b.Line
		}
		if a.Column != b.Column {
			return a.Column < b.Column
		}
		return false
	}), len(el)
}

func (p *c13) Run(c fw.Case, r *fw.Rec) {
	var mi int
	fmt.Sscan(c.P["mode"], &mi)
	mode := c13Modes[mi%len(c13Modes)]
	entry := c.P["entry"]
	src := c.In
	budget := int64(64 * (len(src) + 16))
	var root oracle.Node
	var err error
	var nilResult bool
	parser.VerifReset(budget)
	defer parser.VerifReset(0)
	panicked := false
	func() {
		defer func() {
			if e := recover(); e != nil {
				panicked = true
				if be, ok := e.(parser.VerifBudgetExceeded); ok {
					r.Fail("parse:step-budget-exceeded:"+entry, "parser took more than %d steps (budget 64*(len+16)) on %d bytes: non-termination or super-linear blow-up (steps=%d)", budget, len(src), be.Steps)
					return
				}
				st := stackOf()
				r.Fail("parse:"+fw.SiteFromPanic(e, st), "panic escaped the parser (entry=%s mode=%#x): %v\n%s", entry, mode, e, trimStack(st))
			}
		}()
		fset := token.NewFileSet()
		switch entry {
		case "file":
			f, e := parser.ParseFile(fset, "a.xgo", src, mode)
			err = e
			if f == nil {
				nilResult = true
			} else {
				root = f
			}
		case "class":
			f, e := parser.ParseFile(fset, "a.gox", src, mode|parser.ParseGoPlusClass)
			err = e
			if f == nil {
				nilResult = true
			} else {
				root = f
			}
		case "expr":
			x, e := parser.ParseExpr(string(src))
			err = e
			if x != nil {
				root = x
			} else if e == nil {
				nilResult = true
			}
		case "exprfrom":
			x, e := parser.ParseExprFrom(fset, "a.xgo", src, mode)
			err = e
			if x != nil {
				root = x
			} else if e == nil {
				nilResult = true
			}
		case "fsdir":
			fs := memfs.TwoFiles("/p", "a.xgo", string(src), "b_test.gox", string(src))
			pkgs, e := parser.ParseFSDir(fset, fs, "/p", parser.Config{Mode: mode})
			err = e
			if pkgs == nil {
				nilResult = true
			}
			if e == nil {
				for _, pk := range pkgs {
					for _, f := range pk.Files {
						if bad := oracle.HasBad(f); bad != "" {
							r.Fail("parse:nil-error-but-"+bad+":fsdir", "ParseFSDir returned nil error but the tree contains %s", bad)
						}
					}
				}
			}
		}
	}()
	r.Cover("entry:" + entry)
	if panicked || r.Failed() {
		return
	}
	steps := parser.VerifSteps()
	if steps >= 8 {
		r.NonTrivial()
		r.DistinctKey(fmt.Sprintf("%s|%d|%s", entry, mode, src))
	}
	if nilResult && (entry == "file" || entry == "class" || entry == "fsdir") {
		r.Fail("parse:nil-result:"+entry, "parser returned a nil result for in-memory source (err=%v)", err)
		return
	}
	if err != nil {
		r.Cover("outcome:errors")
		ok, n := sortedErrs(err)
		if n > 1 {
			r.Cover("errors-sorted-checked")
		}
		if !ok {
			r.Fail("parse:errors-not-sorted:"+entry, "error list not sorted by position: %v", err)
		}
		return
	}
	r.Cover("outcome:no-error")
	if root != nil {
		r.Cover("bad-node-free-checked")
		if bad := oracle.HasBad(root); bad != "" {
			r.Fail("parse:nil-error-but-"+bad+":"+entry, "err==nil but the returned tree contains a %s node", bad)
		}
		if len(src) > 20 && c.Kind != "nest" {
			r.Sample(map[string]any{"entry": entry, "mode": fmt.Sprintf("%#x", mode), "src": fw.Quote(src, 100)})
		}
	}
	_ = ast.NewIdent
	_ = strings.TrimSpace
}
