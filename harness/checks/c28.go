package checks

import (
	"fmt"
	"strings"

	"github.com/goplus/xgo/tpl"
	"github.com/goplus/xgo/tpl/matcher"

	"verif/fw"
	"verif/gen"
)

// C28 — grammar matching always terminates.
type c28 struct {
	Base
	atoms []*gen.TG
	det   []string
}

func init() { fw.Register(&c28{Base: Base{Id: "C28", Lvl: "exploration"}}) }

var c28Inputs = []string{"", "b", "a", "a a a", "1 2 3", "x + 1", "( a )", "a , b , c", "\"s\" 'c' 1.5", "if x else y", "a b 1 + - *", ", , ,", "a1b", "+ +", "a(b)"}

func (p *c28) Setup(env *fw.Env) error {
	p.Env = env
	for _, n := range append([]string{"doc", "a", "b", "doc", "a", "b"}, gen.TokenClasses...) {
		p.atoms = append(p.atoms, gen.TIdent(n))
	}
	for _, l := range append(append([]string{`""`, `""`}, gen.TplKeywords...), gen.TplOpLits...) {
		p.atoms = append(p.atoms, gen.TLit(l))
	}
	p.det = []string{
		"doc = *(?\"a\")", "doc = +(?\"a\")", "doc = *(*\"a\")", "doc = +(*INT)", "doc = *\"\"", "doc = +\"\"", "doc = (?\"a\" ?\"b\") % \",\"", "doc = *(?INT ?IDENT)",
		"doc = INT % ?\",\"", "doc = INT % \"\"", "doc = *a\na = ?INT", "doc = *(a | b)\na = ?INT\nb = IDENT",
		"a = b INT\nb = a STRING", "doc = doc INT", "doc = doc", "doc = ?INT doc", "doc = a\na = b\nb = doc", "doc = a | INT\na = doc \"+\"", "doc = *INT doc IDENT",
		"doc = (doc)", "doc = ?doc INT", "doc = \"\" doc", "doc = a\na = *INT a", "doc = INT | doc", "doc = IDENT ++ doc | INT", "doc = *(IDENT ++ ?INT)", "doc = +(INT | ?IDENT)",
	}
	p.N = len(p.det) + env.Pick(20000, 800000)
	p.RuleS = fmt.Sprintf("%d hand-written nullable-repetition / left-recursion grammars, then random 1-3 rule grammars biased to nullable repetition bodies (\"\" literals, ?x, *x inside * + %%) and direct/indirect/hidden left recursion with and without a choice on the cycle; each compiled grammar is matched (Match, ParseExpr, Parse) against %d fixed token inputs. Verdicts are logical: the verif hooks report a repetition iteration that consumed nothing and is about to repeat, or a rule re-entered at the same input position; step budget 10^6*(1+tokens) exhaustion is inconclusive. Non-trivial = grammar compiles and contains a repetition or a rule reference; distinct by grammar text.", len(p.det), len(c28Inputs))
	p.Assume = []string{"matchers are pure functions of the remaining input (so one no-progress iteration or same-position re-entry proves divergence)", "ret-procs are not used"}
	p.Floor = map[string]int{"#evaluations": p.N / 2, "#nontrivial": 2000, "compiled": p.N / 10, "rejected-at-compile-time": 100, "matches-run": p.N, "hook:repeat-iterations": 1000, "hook:var-enters": 10000, "gen:nullable-repeat-bias": 500, "gen:left-recursion-bias": 300}
	return nil
}

func (p *c28) Case(i int) fw.Case {
	if i < len(p.det) {
		return fw.Case{Kind: "det", In: []byte(p.det[i])}
	}
	r := p.rnd(i)
	nr := r.Range(1, 3)
	names := []string{"doc", "a", "b"}[:nr]
	var b strings.Builder
	bias := ""
	for k := 0; k < nr; k++ {
		g := gen.RandTG(r, gen.TGOpts{Atoms: p.atoms, MaxDepth: r.Range(1, 4)}, 0)
		if r.Chance(1, 3) {
			bias += "N"
			// bias: wrap something nullable into a repetition
			inner := fw.Pick(r, []*gen.TG{gen.TUn("?", g), gen.TLit(`""`), gen.TUn("*", g), gen.TSeq(gen.TUn("?", gen.TIdent("INT")), gen.TUn("?", g))})
			g = fw.Pick(r, []*gen.TG{gen.TUn("*", inner), gen.TUn("+", inner), gen.TBin("%", inner, gen.TLit(`","`)), gen.TBin("%", gen.TIdent("INT"), inner)})
		}
		if r.Chance(1, 4) {
			bias += "L"
			// bias: left recursion through rule k or the next rule
			ref := gen.TIdent(names[r.Intn(nr)])
			g = fw.Pick(r, []*gen.TG{gen.TSeq(ref, g), gen.TSeq(gen.TUn("?", gen.TIdent("INT")), ref, g), gen.TChoice(gen.TSeq(ref, gen.TLit(`"+"`)), g), gen.TBin("%", ref, g)})
		}
		b.WriteString(names[k] + " = " + g.String() + "\n")
	}
	return fw.Case{Kind: "gen", In: []byte(b.String()), P: map[string]string{"bias": bias}}
}

func (p *c28) Run(c fw.Case, r *fw.Rec) {
	src := string(c.In)
	if strings.Contains(c.P["bias"], "N") {
		r.Cover("gen:nullable-repeat-bias")
	}
	if strings.Contains(c.P["bias"], "L") {
		r.Cover("gen:left-recursion-bias")
	}
	var cl tpl.Compiler
	var err error
	if fw.Guard(r, "tpl.New", func() { cl, err = tpl.New(src) }) {
		return
	}
	if err != nil {
		r.Cover("rejected-at-compile-time")
		return
	}
	r.Cover("compiled")
	if strings.ContainsAny(src, "*+%") || strings.Count(src, "=") > 1 {
		r.NonTrivial()
	}
	for k, in := range c28Inputs {
		ntok := len(strings.Fields(in))
		budget := int64(1000000 * (1 + ntok))
		stop := false
		func() {
			matcher.VerifReset(budget)
			defer func() {
				iters, enters := matcher.VerifRepeatIters, matcher.VerifVarEnters
				matcher.VerifReset(0)
				r.CoverN("hook:repeat-iterations", int(iters))
				r.CoverN("hook:var-enters", int(enters))
				if e := recover(); e != nil {
					stop = true
					switch e := e.(type) {
					case matcher.VerifNoProgress:
						r.Fail("match:no-progress-repetition", "grammar\n%s\non input %q: a repetition iteration matched without consuming input and is repeated: matching never terminates", src, in)
					case matcher.VerifLeftRecursion:
						r.Fail("match:left-recursion", "grammar\n%s\non input %q: rule %s is re-entered at the same input position (unbounded left recursion)", src, in, e.Name)
					case matcher.VerifBudgetExceeded:
						r.Inconclusive(fmt.Sprintf("C28 step budget %d exhausted on grammar %q input %q", budget, src, in))
					default:
						st := stackOf()
						r.Fail("match:"+fw.SiteFromPanic(e, st), "panic during matching of grammar\n%s\non input %q: %v\n%s", src, in, e, trimStack(st))
					}
				}
			}()
			switch k % 3 {
			case 0:
				cl.Match("in.txt", in, nil)
			case 1:
				cl.ParseExpr(in, nil)
			default:
				cl.Parse("in.txt", in, nil)
			}
			r.Cover("matches-run")
		}()
		if stop {
			return
		}
	}
	r.Sample(src)
}
