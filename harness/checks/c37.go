package checks

import (
	"bytes"
	"fmt"
	goast "go/ast"
	goparser "go/parser"
	goprinter "go/printer"
	gotoken "go/token"
	"strings"

	"github.com/goplus/xgo/ast/fromgo"
	"github.com/goplus/xgo/ast/togo"

	"verif/corpus"
	"verif/fw"
	"verif/gen"
)

// C37 — Go/XGo declaration trees convert without loss (round-trip + go/printer).
type c37 struct {
	Base
	files []corpus.File
}

func init() { fw.Register(&c37{Base: Base{Id: "C37", Lvl: "exploration"}}) }

func (p *c37) Setup(env *fw.Env) error {
	p.Env = env
	p.files = append(corpus.Go(env.Repo), corpus.GoRootFiles("fmt", "strings", "sort", "strconv", "bytes", "errors", "slices", "maps", "iter", "sync", "io", "path", "bufio", "container/list", "encoding/json", "go/scanner", "go/token", "math", "time", "reflect")...)
	p.N = len(p.files) + env.Pick(2500, 60000)
	p.RuleS = fmt.Sprintf("every .go file of the repository and of 20 standard-library packages (%d files, incl. generics, union constraints, struct tags, iota blocks, func-typed variables), then generated Go files with random declarations. Oracle: togo.ASTFile(fromgo.ASTFile(f)) must not panic and, per declaration, the go/printer text of the header must equal the original's (function bodies removed on both sides; bodies of function literals emptied on both sides — the conversion is documented to skip closure bodies; Doc/Comment fields cleared on both sides). Non-trivial = file with >=3 declarations; distinct by source.", len(p.files))
	p.Assume = []string{"go/printer is the canonical rendering of a declaration header", "files that go/parser rejects are discarded"}
	p.Floor = map[string]int{"#evaluations": p.N / 2, "#nontrivial": 300, "decls-compared": 5000, "decl:func": 2000, "decl:method": 500, "decl:type": 500, "decl:var": 300, "decl:const": 200, "decl:import": 200}
	return nil
}

func (p *c37) Case(i int) fw.Case {
	if i < len(p.files) {
		return fw.Case{Kind: "corpus", P: map[string]string{"i": fmt.Sprint(i)}}
	}
	r := p.rnd(i)
	return fw.Case{Kind: "gen-go", In: []byte((&gen.XSyn{R: r}).GoFile())}
}

// emptyFuncLits replaces the body of every function literal by an empty block.
func emptyFuncLits(n goast.Node) {
	goast.Inspect(n, func(x goast.Node) bool {
		if fl, ok := x.(*goast.FuncLit); ok {
			fl.Body = &goast.BlockStmt{}
		}
		return true
	})
}

func clearDocs(n goast.Node) {
	goast.Inspect(n, func(x goast.Node) bool {
		switch v := x.(type) {
		case *goast.Field:
			v.Doc, v.Comment = nil, nil
		case *goast.ImportSpec:
			v.Doc, v.Comment = nil, nil
		case *goast.ValueSpec:
			v.Doc, v.Comment = nil, nil
		case *goast.TypeSpec:
			v.Doc, v.Comment = nil, nil
		case *goast.GenDecl:
			v.Doc = nil
		case *goast.FuncDecl:
			v.Doc = nil
		}
		return true
	})
}

func headerText(fset *gotoken.FileSet, d goast.Decl) string {
	if fd, ok := d.(*goast.FuncDecl); ok {
		fd.Body = nil
	}
	emptyFuncLits(d)
	clearDocs(d)
	var buf bytes.Buffer
	// print without positions so that line breaks of the original layout do not matter
	(&goprinter.Config{Mode: goprinter.RawFormat}).Fprint(&buf, gotoken.NewFileSet(), stripPos(d))
	return strings.Join(strings.Fields(buf.String()), " ")
}

// stripPos returns the node itself; go/printer tolerates positions of another file set (it only uses line info,
// which an empty file set does not have), so the layout is derived from the tree alone.
func stripPos(d goast.Decl) goast.Decl { return d }

func (p *c37) Run(c fw.Case, r *fw.Rec) {
	src := c.In
	name := "a.go"
	if c.Kind == "corpus" {
		var i int
		fmt.Sscan(c.P["i"], &i)
		src, name = p.files[i].Src, p.files[i].Path
	}
	fset := gotoken.NewFileSet()
	f, err := goparser.ParseFile(fset, "a.go", src, goparser.SkipObjectResolution)
	if err != nil {
		r.Skip("go/parser-rejects")
		return
	}
	// a second, independent parse gives the reference (headerText mutates the tree)
	ref, _ := goparser.ParseFile(gotoken.NewFileSet(), "a.go", src, goparser.SkipObjectResolution)
	var back *goast.File
	if fw.Guard(r, "fromgo/togo.ASTFile", func() { back = togo.ASTFile(fromgo.ASTFile(f, 0), 0) }) {
		return
	}
	if back == nil {
		r.Fail("convert:nil-file", "conversion of %s returned nil", name)
		return
	}
	if back.Name == nil || back.Name.Name != ref.Name.Name {
		r.Fail("convert:package-name", "package name %q became %v", ref.Name.Name, back.Name)
		return
	}
	if len(back.Decls) != len(ref.Decls) {
		r.Fail("convert:declaration-count", "%s: %d declarations became %d", name, len(ref.Decls), len(back.Decls))
		return
	}
	for k := range ref.Decls {
		var want, got string
		if fw.Guard(r, "go/printer(converted)", func() { got = headerText(fset, back.Decls[k]) }) {
			return
		}
		want = headerText(fset, ref.Decls[k])
		kind := "var"
		switch d := ref.Decls[k].(type) {
		case *goast.FuncDecl:
			kind = "func"
			if d.Recv != nil {
				kind = "method"
			}
		case *goast.GenDecl:
			kind = strings.ToLower(d.Tok.String())
		}
		r.Cover("decl:" + kind)
		r.Cover("decls-compared")
		if want != got {
			// known representation defect: a nil Names list (unnamed result) comes back as an empty non-nil slice,
			// which go/printer renders as a parenthesised result. Name that site precisely.
			n := 0
			goast.Inspect(back.Decls[k], func(x goast.Node) bool {
				if fl, ok := x.(*goast.Field); ok && fl.Names != nil && len(fl.Names) == 0 {
					fl.Names = nil
					n++
				}
				return true
			})
			if n > 0 {
				var got2 string
				if fw.Guard(r, "go/printer(converted)", func() { got2 = headerText(fset, back.Decls[k]) }) {
					return
				}
				if got2 == want {
					r.Fail("convert:unnamed-result-comes-back-parenthesised", "%s declaration #%d (%s):\n  original : %s\n  converted: %s", name, k, kind, clipS(want, 300), clipS(got, 300))
					continue
				}
				got = got2
			}
			r.Fail("convert:header-differs:"+kind+":"+c37DiffClass(want, got), "%s declaration #%d (%s):\n  original : %s\n  converted: %s", name, k, kind, clipS(want, 400), clipS(got, 400))
			return
		}
	}
	if len(ref.Decls) >= 3 {
		r.NonTrivial()
		if c.Kind == "corpus" {
			r.Sample(name)
		}
	}
}

// c37DiffClass names the kind of difference by the tokens around the first differing word.
func c37DiffClass(a, b string) string {
	wa, wb := strings.Fields(a), strings.Fields(b)
	i := 0
	for i < len(wa) && i < len(wb) && wa[i] == wb[i] {
		i++
	}
	get := func(w []string) string {
		if i < len(w) {
			s := w[i]
			// keep only punctuation shape
			var sb strings.Builder
			for _, ch := range s {
				switch {
				case ch >= 'a' && ch <= 'z' || ch >= 'A' && ch <= 'Z' || ch == '_':
					if sb.Len() == 0 || sb.String()[sb.Len()-1] != 'x' {
						sb.WriteByte('x')
					}
				case ch >= '0' && ch <= '9':
					if sb.Len() == 0 || sb.String()[sb.Len()-1] != 'N' && sb.String()[sb.Len()-1] != 'x' {
						sb.WriteByte('N')
					}
				default:
					sb.WriteRune(ch)
				}
			}
			return sb.String()
		}
		return "<end>"
	}
	return get(wa) + "->" + get(wb)
}
