package checks

import (
	"fmt"
	gotoken "go/token"
	"strings"

	"github.com/goplus/xgo/scanner"
	"github.com/goplus/xgo/token"
	tplscanner "github.com/goplus/xgo/tpl/scanner"
	tpltoken "github.com/goplus/xgo/tpl/token"

	"verif/fw"
)

// C33 — token spellings round-trip through the scanners (finite, exhaustive).
type c33 struct {
	Base
	cases []fw.Case
}

func init() { fw.Register(&c33{Base: Base{Id: "C33", Lvl: "exploration"}}) }

// independent spelling tables (source of truth is the language documentation, not token.String)
var xgoSpell = map[token.Token]string{
	token.ADD: "+", token.SUB: "-", token.MUL: "*", token.QUO: "/", token.REM: "%", token.AND: "&", token.OR: "|", token.XOR: "^",
	token.SHL: "<<", token.SHR: ">>", token.AND_NOT: "&^", token.ADD_ASSIGN: "+=", token.SUB_ASSIGN: "-=", token.MUL_ASSIGN: "*=",
	token.QUO_ASSIGN: "/=", token.REM_ASSIGN: "%=", token.AND_ASSIGN: "&=", token.OR_ASSIGN: "|=", token.XOR_ASSIGN: "^=",
	token.SHL_ASSIGN: "<<=", token.SHR_ASSIGN: ">>=", token.AND_NOT_ASSIGN: "&^=", token.LAND: "&&", token.LOR: "||", token.ARROW: "<-",
	token.INC: "++", token.DEC: "--", token.EQL: "==", token.LSS: "<", token.GTR: ">", token.ASSIGN: "=", token.NOT: "!", token.NEQ: "!=",
	token.LEQ: "<=", token.GEQ: ">=", token.DEFINE: ":=", token.ELLIPSIS: "...", token.LPAREN: "(", token.LBRACK: "[", token.LBRACE: "{",
	token.COMMA: ",", token.PERIOD: ".", token.RPAREN: ")", token.RBRACK: "]", token.RBRACE: "}", token.SEMICOLON: ";", token.COLON: ":",
	token.QUESTION: "?", token.DRARROW: "=>", token.SRARROW: "->", token.BIDIARROW: "<>", token.ENV: "$", token.TILDE: "~",
	token.BREAK: "break", token.CASE: "case", token.CHAN: "chan", token.CONST: "const", token.CONTINUE: "continue", token.DEFAULT: "default",
	token.DEFER: "defer", token.ELSE: "else", token.FALLTHROUGH: "fallthrough", token.FOR: "for", token.FUNC: "func", token.GO: "go",
	token.GOTO: "goto", token.IF: "if", token.IMPORT: "import", token.INTERFACE: "interface", token.MAP: "map", token.PACKAGE: "package",
	token.RANGE: "range", token.RETURN: "return", token.SELECT: "select", token.STRUCT: "struct", token.SWITCH: "switch", token.TYPE: "type", token.VAR: "var",
}

var tplSpell = map[tpltoken.Token]string{
	tpltoken.ADD: "+", tpltoken.SUB: "-", tpltoken.MUL: "*", tpltoken.QUO: "/", tpltoken.REM: "%", tpltoken.AND: "&", tpltoken.OR: "|", tpltoken.XOR: "^",
	tpltoken.LT: "<", tpltoken.GT: ">", tpltoken.ASSIGN: "=", tpltoken.NOT: "!", tpltoken.LPAREN: "(", tpltoken.LBRACK: "[", tpltoken.LBRACE: "{",
	tpltoken.COMMA: ",", tpltoken.PERIOD: ".", tpltoken.RPAREN: ")", tpltoken.RBRACK: "]", tpltoken.RBRACE: "}", tpltoken.SEMICOLON: ";", tpltoken.COLON: ":",
	tpltoken.QUESTION: "?", tpltoken.TILDE: "~", tpltoken.AT: "@", tpltoken.ENV: "$",
	tpltoken.SHL: "<<", tpltoken.SHR: ">>", tpltoken.AND_NOT: "&^", tpltoken.ADD_ASSIGN: "+=", tpltoken.SUB_ASSIGN: "-=", tpltoken.MUL_ASSIGN: "*=",
	tpltoken.QUO_ASSIGN: "/=", tpltoken.REM_ASSIGN: "%=", tpltoken.AND_ASSIGN: "&=", tpltoken.OR_ASSIGN: "|=", tpltoken.XOR_ASSIGN: "^=",
	tpltoken.SHL_ASSIGN: "<<=", tpltoken.SHR_ASSIGN: ">>=", tpltoken.AND_NOT_ASSIGN: "&^=", tpltoken.LAND: "&&", tpltoken.LOR: "||", tpltoken.ARROW: "<-",
	tpltoken.INC: "++", tpltoken.DEC: "--", tpltoken.EQ: "==", tpltoken.NE: "!=", tpltoken.LE: "<=", tpltoken.GE: ">=", tpltoken.DEFINE: ":=",
	tpltoken.ELLIPSIS: "...", tpltoken.DRARROW: "=>", tpltoken.SRARROW: "->", tpltoken.BIDIARROW: "<>", tpltoken.POW: "**",
}

func isNameLike(s string) bool {
	// "IDENT", "token(12)", "" etc. are names, not spellings
	if s == "" || strings.HasPrefix(s, "token(") {
		return true
	}
	for _, c := range s {
		if c >= 'A' && c <= 'Z' {
			return true
		}
	}
	return false
}

func (p *c33) Setup(env *fw.Env) error {
	p.Env = env
	p.cases = nil
	for t := 0; t < 512; t++ {
		for _, suffix := range []string{"", " ", "\n", " x"} {
			p.cases = append(p.cases,
				fw.Case{Kind: "xgo", P: map[string]string{"tok": fmt.Sprint(t), "suffix": suffix}},
				fw.Case{Kind: "tpl", P: map[string]string{"tok": fmt.Sprint(t), "suffix": suffix}})
		}
	}
	p.N = len(p.cases)
	p.RuleS = "finite and exhaustive: every token value 0..511 of token.Token and tpl/token.Token; for each operator/keyword token (by the harness's independent spelling table, and additionally every value whose String() looks like a spelling) the spelling is scanned alone and followed by ' ', '\\n', ' x'; String/Len/Precedence/IsOperator are checked for every value. Non-trivial = token with a spelling."
	p.Assume = []string{"the harness spelling tables restate the documented token spellings"}
	p.Floor = map[string]int{"xgo:spelled-token": 4 * 75, "tpl:spelled-token": 4 * 50, "xgo:precedence>0": 20}
	return nil
}

func (p *c33) Exhaustive() bool { return true }

func (p *c33) Case(i int) fw.Case { return p.cases[i] }

func (p *c33) Run(c fw.Case, r *fw.Rec) {
	var tv int
	fmt.Sscan(c.P["tok"], &tv)
	suffix := c.P["suffix"]
	if c.Kind == "xgo" {
		t := token.Token(tv)
		var str string
		if fw.Guard(r, "token.String", func() { str = t.String() }) {
			return
		}
		var prec int
		if fw.Guard(r, "token.Precedence", func() { prec = t.Precedence() }) {
			return
		}
		if prec > 0 {
			r.Cover("xgo:precedence>0")
			if !t.IsOperator() {
				r.Fail("xgo:precedence-without-IsOperator:"+str, "token %d (%s) has precedence %d but IsOperator()==false", tv, str, prec)
			}
		}
		want, known := xgoSpell[t]
		if known && str != want {
			r.Fail("xgo:String-differs-from-spelling:"+want, "token %d String()=%q, documented spelling %q", tv, str, want)
			return
		}
		if !known {
			if isNameLike(str) {
				r.Skip("not-a-spelled-token")
				return
			}
			want = str // token added after the table was written: still must round-trip
		}
		if !t.IsOperator() && !t.IsKeyword() {
			r.Fail("xgo:spelled-token-neither-operator-nor-keyword:"+want, "token %d %q: IsOperator and IsKeyword both false", tv, want)
		}
		r.Cover("xgo:spelled-token")
		r.NonTrivial()
		src := []byte(want + suffix)
		fset := token.NewFileSet()
		file := fset.AddFile("a.xgo", -1, len(src))
		var s scanner.Scanner
		nerr := 0
		var got []string
		var first token.Token
		var firstPos int
		if fw.Guard(r, "scanner.Scan", func() {
			s.Init(file, src, func(pos gotoken.Position, msg string) { nerr++ }, 0)
			for k := 0; k < 8; k++ {
				pos, tok, lit := s.Scan()
				if k == 0 {
					first, firstPos = tok, int(pos)-file.Base()
				}
				got = append(got, fmt.Sprintf("%s/%q", tok, lit))
				if tok == token.EOF {
					break
				}
			}
		}) {
			return
		}
		if first != t || firstPos != 0 || nerr != 0 {
			r.Fail("xgo:scan-spelling:"+want, "scanning %q: first token %s at %d (errors=%d), want token %d %q at 0; all: %v", src, first, firstPos, nerr, tv, want, got)
			return
		}
		// the rest: optional auto-semicolon, (x, auto-semicolon), EOF
		rest := got[1:]
		if want == ";" {
			// explicit
		}
		exp := map[string]bool{}
		switch suffix {
		case "", " ", "\n":
			exp[`EOF/""`] = true
			exp[`;/"\n"|EOF/""`] = true
		case " x":
			exp[`IDENT/"x"|;/"\n"|EOF/""`] = true
		}
		if !exp[strings.Join(rest, "|")] {
			r.Fail("xgo:scan-spelling-rest:"+want, "scanning %q: tokens after the first are %v", src, rest)
		}
		r.Sample(fmt.Sprintf("xgo %q -> %v", src, got))
		return
	}
	// TPL
	t := tpltoken.Token(tv)
	var str string
	var ln int
	if fw.Guard(r, "tpl/token.String", func() { str = t.String() }) {
		return
	}
	if fw.Guard(r, "tpl/token.Len", func() { ln = t.Len() }) {
		return
	}
	want, known := tplSpell[t]
	if known && str != want {
		r.Fail("tpl:String-differs-from-spelling:"+want, "token %d String()=%q, documented spelling %q", tv, str, want)
		return
	}
	if !known {
		if isNameLike(str) {
			if ln != 0 && tv <= ' ' {
				r.Fail("tpl:Len-nonzero-for-nonoperator", "token %d (%s) Len()=%d", tv, str, ln)
			}
			r.Skip("not-a-spelled-token")
			return
		}
		want = str
	}
	if ln != len(want) {
		r.Fail("tpl:Len-differs-from-spelling:"+want, "token %d %q Len()=%d", tv, want, ln)
	}
	r.Cover("tpl:spelled-token")
	r.NonTrivial()
	src := []byte(want + suffix)
	fset := gotoken.NewFileSet()
	file := fset.AddFile("a.tpl", -1, len(src))
	var s tplscanner.Scanner
	nerr := 0
	var got []string
	var first tpltoken.Token
	var firstPos int
	if fw.Guard(r, "tpl/scanner.Scan", func() {
		s.Init(file, src, func(pos gotoken.Position, msg string) { nerr++ }, 0)
		for k := 0; k < 8; k++ {
			tk := s.Scan()
			if k == 0 {
				first, firstPos = tk.Tok, int(tk.Pos)-file.Base()
			}
			got = append(got, fmt.Sprintf("%s/%q", tk.Tok, tk.Lit))
			if tk.Tok == tpltoken.EOF {
				break
			}
		}
	}) {
		return
	}
	if first != t || firstPos != 0 || nerr != 0 {
		r.Fail("tpl:scan-spelling:"+want, "scanning %q: first token %s at %d (errors=%d), want token %d %q at 0; all: %v", src, first, firstPos, nerr, tv, want, got)
		return
	}
	rest := strings.Join(got[1:], "|")
	ok := false
	switch suffix {
	case "", " ", "\n":
		ok = rest == `EOF/""` || rest == `;/"\n"|EOF/""`
	case " x":
		ok = rest == `IDENT/"x"|;/"\n"|EOF/""`
	}
	if !ok {
		r.Fail("tpl:scan-spelling-rest:"+want, "scanning %q: tokens after the first are %v", src, got[1:])
	}
	r.Sample(fmt.Sprintf("tpl %q -> %v", src, got))
}
