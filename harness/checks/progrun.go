package checks

import (
	"bytes"
	"context"
	"encoding/json"
	"fmt"
	goast "go/ast"
	goparser "go/parser"
	gotoken "go/token"
	"os"
	"os/exec"
	"path/filepath"
	"regexp"
	"sort"
	"strings"
	"sync"
	"time"

	"verif/fw"
)

// Program-executing monitors: workers compile XGo sources in-process and leave Go packages in the scratch
// module; the driver then builds all of them with one `go build` and runs the binaries.

const progModule = "verifrun"

// progSetup creates the scratch module (idempotent).
func progSetup(env *fw.Env) error {
	dir := filepath.Join(env.Scratch, "mod")
	if _, err := os.Stat(filepath.Join(dir, "go.mod")); err == nil {
		return nil
	}
	if err := os.MkdirAll(filepath.Join(dir, "lib"), 0o755); err != nil {
		return err
	}
	gomod := "module " + progModule + "\n\ngo 1.23\n\nrequire github.com/goplus/xgo v0.0.0\n\nreplace github.com/goplus/xgo => " + env.Repo + "\n"
	sum, _ := os.ReadFile(filepath.Join(fw.VerifDir(), "harness", "go.sum"))
	if err := os.WriteFile(filepath.Join(dir, "go.sum"), sum, 0o644); err != nil {
		return err
	}
	return os.WriteFile(filepath.Join(dir, "go.mod"), []byte(gomod), 0o644)
}

// progMainName is what func main is renamed to (a name no generated or corpus program declares).
const progMainName = "VerifProgMain__"

var (
	rePkgMain  = regexp.MustCompile(`(?m)^package main\b`)
	reFuncMain = regexp.MustCompile(`(?m)^func main\(\)`)
)

// progAsLibrary rewrites a file of a main package so that it can be linked, with hundreds of others, into one
// dispatcher binary: the package is renamed and func main becomes func Main. (Linking one binary per program
// costs 0.25 s each on this machine; outputs that mention the package name are normalised back to "main".)
func progAsLibrary(name, src string) string {
	fset := gotoken.NewFileSet()
	f, err := goparser.ParseFile(fset, "x.go", src, goparser.SkipObjectResolution)
	if err != nil || f.Name.Name != "main" {
		src = rePkgMain.ReplaceAllString(src, "package "+name)
		return reFuncMain.ReplaceAllString(src, "func "+progMainName+"()")
	}
	type edit struct {
		off, n int
		s      string
	}
	eds := []edit{{fset.Position(f.Name.Pos()).Offset, 4, name}}
	for _, d := range f.Decls {
		if fd, ok := d.(*goast.FuncDecl); ok && fd.Recv == nil && fd.Name.Name == "main" {
			eds = append(eds, edit{fset.Position(fd.Name.Pos()).Offset, 4, progMainName})
		}
	}
	sort.Slice(eds, func(i, j int) bool { return eds[i].off > eds[j].off })
	for _, e := range eds {
		src = src[:e.off] + e.s + src[e.off+e.n:]
	}
	return src
}

// progWrite writes one main package (files: name -> content) as lib/<name>.
func progWrite(env *fw.Env, name string, files map[string]string) error {
	if err := progSetup(env); err != nil {
		return err
	}
	dir := filepath.Join(env.Scratch, "mod", "lib", name)
	if err := os.MkdirAll(dir, 0o755); err != nil {
		return err
	}
	for n, c := range files {
		if strings.HasSuffix(n, ".go") {
			c = progAsLibrary(name, c)
		}
		if err := os.WriteFile(filepath.Join(dir, n), []byte(c), 0o644); err != nil {
			return err
		}
	}
	return nil
}

// progMeta is left by a worker next to the packages of one case.
type progMeta struct {
	Idx     int               `json:"idx"`
	Pkgs    []string          `json:"pkgs"` // package names under progs/
	Info    map[string]string `json:"info,omitempty"`
	Case    fw.Case           `json:"case"`
	Expect  string            `json:"expect,omitempty"` // expected stdout (self-describing programs)
	Cover   map[string]int    `json:"cover,omitempty"`
	Sources map[string]string `json:"sources,omitempty"`
}

func progWriteMeta(env *fw.Env, m progMeta) {
	b, _ := json.Marshal(m)
	os.MkdirAll(filepath.Join(env.Scratch, "meta"), 0o755)
	os.WriteFile(filepath.Join(env.Scratch, "meta", fmt.Sprintf("%06d.json", m.Idx)), b, 0o644)
}

func progReadMetas(env *fw.Env) []progMeta {
	files, _ := filepath.Glob(filepath.Join(env.Scratch, "meta", "*.json"))
	sort.Strings(files)
	var out []progMeta
	for _, f := range files {
		b, err := os.ReadFile(f)
		if err != nil {
			continue
		}
		var m progMeta
		if json.Unmarshal(b, &m) == nil {
			out = append(out, m)
		}
	}
	return out
}

var reBuildPkg = regexp.MustCompile(`(?m)^# ` + progModule + `/lib/(\S+)`)

// progBuildFlags are extra `go build` flags of the running check (C09 disables inlining).
var progBuildFlags []string

var reLoadErr = regexp.MustCompile(`(?m)^package ` + progModule + `/lib/(\S+)\n\t.*$`)

func goCmd(dir string, args ...string) (string, error) {
	cmd := exec.Command("go", args...)
	cmd.Dir = dir
	cmd.Env = append(os.Environ(), "GOFLAGS=-mod=mod", "GOPROXY=off", "GOSUMDB=off", "GOTOOLCHAIN=local")
	var out bytes.Buffer
	cmd.Stdout, cmd.Stderr = &out, &out
	err := cmd.Run()
	return out.String(), err
}

// progBuildAll compiles every package under lib/ (collecting the compiler's complaints per package), then links
// the ones that compiled into one dispatcher binary bin/disp.
func progBuildAll(env *fw.Env) (failed map[string]string, err error) { return progBuild(env, true) }

// progBuild: link=false stops after compiling the packages.
func progBuild(env *fw.Env, link bool) (failed map[string]string, err error) {
	dir := filepath.Join(env.Scratch, "mod")
	failed = map[string]string{}
	text, runErr := goCmd(dir, append(append([]string{"build"}, progBuildFlags...), "./lib/...")...)
	if runErr != nil {
		locs := reBuildPkg.FindAllStringSubmatchIndex(text, -1)
		for i, m := range locs {
			end := len(text)
			if i+1 < len(locs) {
				end = locs[i+1][0]
			}
			failed[text[m[2]:m[3]]] = strings.TrimSpace(text[m[0]:end])
		}
		if len(failed) == 0 {
			// load errors (bad imports) abort the whole build: drop those packages and try once more
			dropped := false
			for _, m := range reLoadErr.FindAllStringSubmatch(text, -1) {
				failed[m[1]] = "not buildable in the scratch module: " + strings.TrimSpace(m[0])
				os.RemoveAll(filepath.Join(dir, "lib", m[1]))
				dropped = true
			}
			if !dropped {
				return failed, fmt.Errorf("go build failed: %s", clipS(text, 2000))
			}
			text2, err2 := goCmd(dir, append(append([]string{"build"}, progBuildFlags...), "./lib/...")...)
			if err2 != nil {
				locs := reBuildPkg.FindAllStringSubmatchIndex(text2, -1)
				if len(locs) == 0 {
					return failed, fmt.Errorf("go build failed: %s", clipS(text2, 2000))
				}
				for i, m := range locs {
					end := len(text2)
					if i+1 < len(locs) {
						end = locs[i+1][0]
					}
					failed[text2[m[2]:m[3]]] = strings.TrimSpace(text2[m[0]:end])
				}
			}
		}
	}
	if !link {
		return failed, nil
	}
	ents, _ := os.ReadDir(filepath.Join(dir, "lib"))
	var b strings.Builder
	b.WriteString("package main\n\nimport (\n\t\"os\"\n")
	var names []string
	for _, e := range ents {
		if _, bad := failed[e.Name()]; !bad {
			names = append(names, e.Name())
			fmt.Fprintf(&b, "\t%q\n", progModule+"/lib/"+e.Name())
		}
	}
	b.WriteString(")\n\nfunc main() {\n\tswitch os.Args[1] {\n")
	for _, n := range names {
		fmt.Fprintf(&b, "\tcase %q:\n\t\t%s.%s()\n", n, n, progMainName)
	}
	b.WriteString("\tdefault:\n\t\tos.Exit(97)\n\t}\n}\n")
	os.MkdirAll(filepath.Join(dir, "disp"), 0o755)
	if err := os.WriteFile(filepath.Join(dir, "disp", "main.go"), []byte(b.String()), 0o644); err != nil {
		return failed, err
	}
	if text, err := goCmd(dir, append(append([]string{"build"}, progBuildFlags...), "-o", "bin/disp", "./disp")...); err != nil {
		return failed, fmt.Errorf("linking the dispatcher failed: %s", clipS(text, 2000))
	}
	return failed, nil
}

type progResult struct {
	Stdout   string
	Stderr   string
	Code     int
	TimedOut bool
}

var reAddr = regexp.MustCompile(`0x[0-9a-f]+`)

// PanicLine extracts the normalised "panic: …" part of stderr (up to the goroutine trailer).
func (r progResult) PanicLine() string {
	s := r.Stderr
	i := strings.Index(s, "panic: ")
	j := strings.Index(s, "fatal error: ")
	if i < 0 || (j >= 0 && j < i) {
		i = j
	}
	if i < 0 {
		return ""
	}
	s = s[i:]
	if k := strings.Index(s, "\n\ngoroutine "); k >= 0 {
		s = s[:k]
	}
	if k := strings.Index(s, "\ngoroutine "); k >= 0 {
		s = s[:k]
	}
	s = reAddr.ReplaceAllString(s, "0xADDR")
	return strings.TrimSpace(s)
}

func progRun(env *fw.Env, name string, stdin string) progResult {
	bin := filepath.Join(env.Scratch, "mod", "bin", "disp")
	ctx, cancel := context.WithTimeout(context.Background(), 20*time.Second)
	defer cancel()
	cmd := exec.CommandContext(ctx, bin, name)
	cmd.Dir = filepath.Join(env.Scratch, "mod")
	var so, se bytes.Buffer
	cmd.Stdout, cmd.Stderr = &so, &se
	cmd.Env = append(os.Environ(), "GOTRACEBACK=single")
	err := cmd.Run()
	res := progResult{Stdout: strings.ReplaceAll(so.String(), name+".", "main."), Stderr: strings.ReplaceAll(se.String(), name+".", "main.")}
	if ctx.Err() != nil {
		res.TimedOut = true
	}
	if err != nil {
		if ee, ok := err.(*exec.ExitError); ok {
			res.Code = ee.ExitCode()
		} else {
			res.Code = -1
		}
	}
	if len(res.Stdout) > 256<<10 {
		res.Stdout = res.Stdout[:256<<10]
	}
	return res
}

// progRunAll runs the named binaries in parallel.
func progRunAll(env *fw.Env, names []string) map[string]progResult {
	out := map[string]progResult{}
	var mu sync.Mutex
	var wg sync.WaitGroup
	sem := make(chan struct{}, 12)
	for _, n := range names {
		wg.Add(1)
		sem <- struct{}{}
		go func(n string) {
			defer wg.Done()
			defer func() { <-sem }()
			r := progRun(env, n, "")
			mu.Lock()
			out[n] = r
			mu.Unlock()
		}(n)
	}
	wg.Wait()
	return out
}

func firstDiffLine(a, b string) string {
	la, lb := strings.Split(a, "\n"), strings.Split(b, "\n")
	for i := 0; i < len(la) || i < len(lb); i++ {
		var x, y string
		if i < len(la) {
			x = la[i]
		}
		if i < len(lb) {
			y = lb[i]
		}
		if x != y {
			return fmt.Sprintf("line %d:\n  reference: %s\n  xgo      : %s", i+1, clipS(x, 300), clipS(y, 300))
		}
	}
	return "(identical)"
}
