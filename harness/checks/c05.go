package checks

import (
	"fmt"
	"strconv"
	"strings"

	"verif/fw"
)

// C05 — string interpolation equals explicit concatenation.
type c05 struct {
	Base
}

func init() { fw.Register(&c05{Base: Base{Id: "C05", Lvl: "exploration"}}) }

func (p *c05) Setup(env *fw.Env) error {
	p.Env = env
	xgocWarm(env)
	p.N = env.Pick(40, 1500)
	p.RuleS = "each case is an XGo program with 12 generated string literals (interpreted and raw) made of text pieces (ASCII, punctuation incl. braces, Unicode, every Go escape form incl. \\x24 for '$'), `$$` escapes (also in front of `{`, doubled, at the end), a trailing lone `$`, and ${expr} parts over int/int64/uint64/float64/string/error values (variables, arithmetic, calls, slices, fields, methods, spaces inside the braces; quotes and indexing inside raw literals) including traced calls t(k) that record their evaluation. The harness computes the expected value of every literal from its pieces (strconv.Itoa / FormatInt / FormatUint / FormatFloat('g',-1,64), the string itself, Error()) and the expected trace; the program is compiled by the XGo compiler, built, run, and prints %q of each value and the trace on a tagged line. Oracle: every line equals the model's."
	p.Assume = []string{"operand types are those the documented `.string` conversion exists for (int, int64, uint64, float64, string, error); bool and the sized integer types are rejected at compile time (`b.string undefined`) and are outside the domain", "an embedded expression does not contain '}' (the documented delimiter)"}
	p.Floor = map[string]int{"#evaluations": p.N * 9 / 10, "#nontrivial": p.N * 8 / 10, "programs-executed": p.N * 9 / 10, "stdout-lines-compared": p.N * 10, "piece:dollar-escape": p.N * 3, "piece:expr": p.N * 10, "piece:escape-sequence": p.N * 3, "literal:raw": p.N * 2, "literal:traced-calls": p.N, "expr-type:float64": p.N / 2, "expr-type:error": p.N / 3, "expr-type:string": p.N, "expr-type:int": p.N}
	return nil
}

func (p *c05) Case(i int) fw.Case { return fw.Case{Kind: "literals"} }

const c05Prelude = `import (
	"errors"
	"strings"
)

type E struct{ code int }

func (e E) Error() string { return "E#" + strings.Repeat("!", e.code) }

type P struct {
	name string
	n    int
}

func (p *P) Name() string { return "<" + p.name + ">" }

const (
	KS = "ks"
	KN = 7
	KF = 1.0 / 3
	KP = 3.14159265
)

const KT float64 = 2.718281828

var tr []int

func t(x int) int {
	tr = append(tr, x)
	return x
}

func ts(x int, s string) string {
	tr = append(tr, x)
	return s
}

`

type c05val struct {
	src, val, ty string
	raw          bool // needs a raw literal (contains quotes)
	trace        []int
}

func (p *c05) Run(c fw.Case, r *fw.Rec) {
	pairWorker(p.Env, p.Id, c, r, p.build(c, r))
}

// build generates the experiment of one case.
func (p *c05) build(c fw.Case, r *fw.Rec) pairBuild {
	rnd := p.rnd(c.Idx)
	a, b := rnd.Range(-50, 99), rnd.Range(1, 9)
	i64 := int64(rnd.Range(-1000, 1000)) * 1_000_000_007
	u64 := uint64(rnd.Range(0, 1000)) * 18_446_744_073_709_551
	fl := []float64{1.5, 0.1, 1e21, 1e-7, -2.25, 100, 0.3333333333333333, 123456789.125}[rnd.Intn(8)]
	g := float64(rnd.Range(-40, 40)) / 8
	s := fw.Pick(rnd, []string{"str", "", "héllo", "a b", "x{y", "q}", "100%", "tab\there", "$"})
	code := rnd.Range(0, 3)
	var src, want strings.Builder
	src.WriteString(c05Prelude)
	fmt.Fprintf(&src, "a, b := %d, %d\nvar i64 int64 = %d\nvar u64 uint64 = %d\nfl, g := %s, %s\ns := %s\nerr := errors.new(\"boom %d\")\nvar e2 error = E{%d}\npp := &P{%s, %d}\narr := [10, 20, 30]\nm := {\"k\": 7}\n_, _, _, _, _, _, _, _, _, _, _, _ = a, b, i64, u64, fl, g, s, err, e2, pp, arr, m\n",
		a, b, i64, u64, fmtFloatSrc(fl), fmtFloatSrc(g), strconv.Quote(s), a, code, strconv.Quote(s), b)
	ff := func(x float64) string { return strconv.FormatFloat(x, 'g', -1, 64) }
	tcount := 0
	exprs := func() c05val {
		switch rnd.Intn(31) {
		case 0, 1:
			return c05val{src: "a", val: strconv.Itoa(a), ty: "int"}
		case 2:
			return c05val{src: "-a", val: strconv.Itoa(-a), ty: "int"}
		case 3:
			return c05val{src: "a*2+b", val: strconv.Itoa(a*2 + b), ty: "int"}
		case 4:
			return c05val{src: " a % b ", val: strconv.Itoa(a % b), ty: "int"}
		case 5:
			return c05val{src: "len(s)", val: strconv.Itoa(len(s)), ty: "int"}
		case 6:
			return c05val{src: "b<<3", val: strconv.Itoa(b << 3), ty: "int"}
		case 7:
			return c05val{src: "i64", val: strconv.FormatInt(i64, 10), ty: "int64"}
		case 8:
			return c05val{src: "u64", val: strconv.FormatUint(u64, 10), ty: "uint64"}
		case 9:
			return c05val{src: "i64 / 3", val: strconv.FormatInt(i64/3, 10), ty: "int64"}
		case 10, 11:
			return c05val{src: "fl", val: ff(fl), ty: "float64"}
		case 12:
			return c05val{src: "fl*g", val: ff(fl * g), ty: "float64"}
		case 13:
			return c05val{src: "g/4", val: ff(g / 4), ty: "float64"}
		case 14:
			return c05val{src: "float64(a)/3", val: ff(float64(a) / 3), ty: "float64"}
		case 15, 16:
			return c05val{src: "s", val: s, ty: "string"}
		case 17:
			return c05val{src: "s+s", val: s + s, ty: "string"}
		case 18:
			return c05val{src: "strings.ToUpper(s)", val: strings.ToUpper(s), ty: "string"}
		case 19:
			return c05val{src: "pp.Name()", val: "<" + s + ">", ty: "string"}
		case 20:
			return c05val{src: "pp.name", val: s, ty: "string"}
		case 21:
			return c05val{src: "pp.n", val: strconv.Itoa(b), ty: "int"}
		case 22:
			return c05val{src: "err", val: fmt.Sprintf("boom %d", a), ty: "error"}
		case 23:
			return c05val{src: "e2", val: "E#" + strings.Repeat("!", code), ty: "error"}
		case 24:
			switch rnd.Intn(6) {
			case 0, 1:
				return c05val{src: "KS", val: "ks", ty: "string"} // untyped string constant
			case 2:
				return c05val{src: "KF", val: ff(1.0 / 3), ty: "float64"} // untyped float constants with many digits
			case 3:
				return c05val{src: "KP * 2", val: ff(3.14159265 * 2), ty: "float64"}
			case 4:
				return c05val{src: "KT", val: ff(2.718281828), ty: "float64"} // typed float constant
			}
			return c05val{src: "KN + 1", val: "8", ty: "int"} // untyped integer constant expression
		case 30:
			return c05val{src: "arr[1]", val: "20", ty: "int"}
		case 25:
			return c05val{src: `m["k"]`, val: "7", ty: "int", raw: true}
		case 26:
			return c05val{src: `s + "|"`, val: s + "|", ty: "string", raw: true}
		case 27, 28:
			tcount++
			return c05val{src: fmt.Sprintf("t(%d)", tcount*10+b), val: strconv.Itoa(tcount*10 + b), ty: "int", trace: []int{tcount*10 + b}}
		default:
			tcount++
			return c05val{src: fmt.Sprintf("ts(%d, s)", tcount), val: s, ty: "string", trace: []int{tcount}}
		}
	}
	type piece struct{ src, val string }
	escapes := []piece{{`\n`, "\n"}, {`\t`, "\t"}, {`\\`, "\\"}, {`\"`, "\""}, {`\x24`, "$"}, {`\x41`, "A"}, {`é`, "é"}, {`\U0001F600`, "😀"}, {`\101`, "A"}, {`\a`, "\a"}, {`\x24{a}`, "${a}"}, {`\'`, "'"}}
	plain := []string{"abc", " ", "x=", "{", "}", "{}", "é", "世界", "%d", "a.b", "#", "'", "//", "/*", ":", "1+1", "`"}
	var prevTrace []int
	for k := 0; k < 12; k++ {
		raw := rnd.Chance(1, 4)
		var lsrc, lval strings.Builder
		var trace []int
		n := rnd.Range(1, 6)
		hasDollar, hasExpr, hasTrace := false, false, false
		for j := 0; j < n; j++ {
			switch x := rnd.Intn(10); {
			case x < 4:
				e := exprs()
				if e.raw && !raw {
					e = c05val{src: "a", val: strconv.Itoa(a), ty: "int"}
				}
				lsrc.WriteString("${" + e.src + "}")
				lval.WriteString(e.val)
				trace = append(trace, e.trace...)
				hasExpr = true
				hasTrace = hasTrace || len(e.trace) > 0
				r.Cover("piece:expr")
				r.Cover("expr-type:" + e.ty)
			case x < 6:
				lsrc.WriteString("$$")
				lval.WriteString("$")
				hasDollar = true
				r.Cover("piece:dollar-escape")
			case x < 8 && !raw:
				e := fw.Pick(rnd, escapes)
				if e.src == `\'` {
					e = escapes[0] // \' is not valid in a string literal
				}
				lsrc.WriteString(e.src)
				lval.WriteString(e.val)
				r.Cover("piece:escape-sequence")
			default:
				t := fw.Pick(rnd, plain)
				if t == "`" && raw {
					t = "'"
				}
				if raw && rnd.Chance(1, 5) {
					t = "\n  " // raw literals may span lines
				}
				lsrc.WriteString(t)
				lval.WriteString(t)
				r.Cover("piece:text")
			}
		}
		if rnd.Chance(1, 6) {
			lsrc.WriteString("$")
			lval.WriteString("$")
			r.Cover("piece:trailing-lone-dollar")
		}
		if !hasExpr && !hasDollar && strings.Contains(lsrc.String(), "$") {
			// a literal with a lone '$' only is a plain string: still worth checking
			r.Cover("literal:plain-with-dollar")
		}
		q := `"`
		kind := "interpreted"
		if raw {
			q, kind = "`", "raw"
			r.Cover("literal:raw")
		}
		if hasTrace {
			r.Cover("literal:traced-calls")
		}
		lit := q + lsrc.String() + q
		switch rnd.Intn(4) {
		case 0:
			fmt.Fprintf(&src, "v%d := %s\n", k, lit)
		case 1:
			fmt.Fprintf(&src, "v%d := strings.trimSpace(%s + \"\")\n", k, lit)
			lv := strings.TrimSpace(lval.String())
			lval.Reset()
			lval.WriteString(lv)
		case 2:
			fmt.Fprintf(&src, "v%d := [%s][0]\n", k, lit)
		default:
			fmt.Fprintf(&src, "var v%d string\nfunc() {\n\tv%d = %s\n}()\n", k, k, lit)
		}
		prevTrace = append(prevTrace, trace...)
		fmt.Fprintf(&src, "printf \"%s: %%d %%q %%v\\n\", %d, v%d, tr\n", kind, k, k)
		tv := fmt.Sprint(prevTrace)
		fmt.Fprintf(&want, "%s: %d %q %s\n", kind, k, lval.String(), tv)
	}
	exp := want.String()
	return pairBuild{
		XGo:    map[string]string{"main.xgo": src.String()},
		Expect: &exp,
		Opts:   compileOpts{GenMain: true},
		Info:   map[string]string{"linetags": "1"},
	}
}

func fmtFloatSrc(g float64) string {
	s := strconv.FormatFloat(g, 'g', -1, 64)
	if !strings.ContainsAny(s, ".e") {
		s += ".0"
	}
	return s
}

func (p *c05) PostRun(env *fw.Env, d *fw.Driver) {
	pairPostRun(env, d, p.Id, func(m progMeta, what string) string {
		return strings.Replace(what, "run:stdout-differs:", "interpolation:", 1)
	})
}
