package checks

import (
	"bytes"
	"fmt"
	"sort"
	"strings"

	"github.com/goplus/xgo/format"
	"github.com/goplus/xgo/format/formatutil"
	"github.com/goplus/xgo/token"

	"verif/fw"
)

// C24 — function hoisting only reorders top-level chunks (conservation + reference splitter).
type c24 struct{ Base }

func init() { fw.Register(&c24{Base: Base{Id: "C24", Lvl: "exploration"}}) }

func (p *c24) Setup(env *fw.Env) error {
	p.Env = env
	p.N = env.Pick(15000, 600000)
	p.RuleS = "random XGo scripts: optional declaration prefix (import, var/const/type incl. grouped `var (…)`, func declarations), then a mix of statements (command calls, assignments, if/for/switch blocks with nested braces, func literals called in place, multi-line calls and composite literals, labels), later declarations (var groups, types, methods with receivers, funcs with parenthesised results) and line/block comments, with strings containing braces, parentheses and semicolons. Oracle: output has the same length and byte multiset; an independent splitter (tracks { ( [ depth on the scanner's token stream) gives the top-level statements of input and output as token sequences: the output's sequence must be the input's with all function declarations after the first non-declaration moved in front of it, relative order kept in both classes; the text before the first non-declaration is unchanged; the comment multiset is unchanged; SourceEx succeeds whenever Source succeeds on the input or on the rearrangement. Non-trivial = script with a function declaration after a statement."
	p.Assume = []string{"a function declaration = top-level `func name(` or `func (recv) name(`; `func(...) {...}()` and `func(...) T {...}()` are statements"}
	p.Floor = map[string]int{"#evaluations": p.N / 2, "#nontrivial": 3000, "hoisted": 3000, "no-statement": 300, "grouped-decl-before-stmt": 500, "method-decl": 1000, "func-literal-stmt": 1000, "sourceex-checked": 3000, "rearrange-needed-for-format": 1000}
	return nil
}

var c24Stmts = []string{
	`echo "hello"`, `x := 1`, `println x, "a;b"`, `a, b = b, a`, "if x > 0 {\n\techo x\n}", "for i <- :3 {\n\tif i == 1 {\n\t\tcontinue\n\t}\n\techo i\n}",
	"func() {\n\techo \"lit\"\n}()", "func(a int) {\n\t_ = a\n}(1)", "go func() {}()", "defer func() { echo 1 }()", "y := []int{\n\t1,\n\t2,\n}", "f(\n\t1,\n\t2,\n)",
	"m := {\"a\": 1, \"}\": 2}", "s := \"}{)(\"", "z := `raw }\n{ text`", "switch x {\ncase 1:\n\techo 1\ndefault:\n}", "L:\nfor {\n\tbreak L\n}", "x++", `t := T{a: 1}`, "h := x => x * 2",
	"q := [i*2 for i <- :3]", "func(n int) /* c */ {\n\t_ = n\n}(1)", "func() /* c */ { echo 1 }()", "func /* c */ (n int) {\n}(2)", `v := func(a int) int { return a }(2)`, "w := (1 +\n\t2)", "arr[(1)] = f(g(1))[0]", "echo f(1)!", "r := ';'",
}
var c24Decls = []string{
	"var g1 = 1", "var (\n\tg2 = 1\n\tg3 = \")\"\n)", "const c1 = 2", "type T struct {\n\ta int\n}", "type (\n\tU int\n\tV = string\n)", "const (\n\tA = iota\n\tB\n)", "var g4 int", "import \"fmt\"",
	"var (\n\tg5 = []int{\n\t\t1,\n\t}\n)", "var g6 = func() int { return 1 }()", "type I interface {\n\tM()\n}",
}
var c24Funcs = []string{
	"func f1() {\n\techo 1\n}", "func f2(a, b int) int {\n\treturn a + b\n}", "func (t T) M1() {\n}", "func (t *T) M2(a int) (int, error) {\n\tif a > 0 {\n\t\treturn a, nil\n\t}\n\treturn 0, nil\n}",
	"func f3() (r int) {\n\tdefer func() { r++ }()\n\treturn\n}", "func f4(cb func(int) int) {\n\tcb(1)\n}", "func f5() { s := \"}\"; _ = s }", "func f6(xs ...int) []int {\n\treturn [x for x <- xs]\n}",
	"func (T) M3() string {\n\treturn \"{\"\n}", "func /* c */ f8() {\n}", "func (t T) /* c */ M4() /* d */ {\n}", "func f9( /* c */ ) /* d */ {\n}", "func f7() {\n\t/* } */\n\t// {\n}",
	"func (a T) + (b T) T {\n\treturn a\n}", "func (a *T) * (b *T) *T {\n\treturn a\n}", "func -(a T) T {\n\treturn a\n}", "func (T).add = (\n\t(T).M1\n\t(T).M3\n)", "func mul = (\n\tf1\n\tf2\n)", "func T.stat() {\n}",
}
var c24Comments = []string{"// c", "/* b */", "// func x() {", "/* {\n( */", "# sharp"}

func (p *c24) Case(i int) fw.Case {
	r := p.rnd(i)
	var parts []string
	add := func(s string) {
		if r.Chance(1, 6) {
			parts = append(parts, fw.Pick(r, c24Comments))
		}
		parts = append(parts, s)
	}
	for k := r.Intn(4); k > 0; k-- {
		switch r.Intn(3) {
		case 0:
			add(fw.Pick(r, c24Funcs))
		default:
			add(fw.Pick(r, c24Decls))
		}
	}
	n := r.Range(0, 7)
	if r.Chance(1, 12) {
		n = 0
	}
	for k := 0; k < n; k++ {
		switch j := r.Intn(10); {
		case j < 5:
			add(fw.Pick(r, c24Stmts))
		case j < 8:
			add(fw.Pick(r, c24Funcs))
		default:
			add(fw.Pick(r, c24Decls))
		}
	}
	sep := fw.Pick(r, []string{"\n", "\n\n", "\n"})
	src := strings.Join(parts, sep)
	if !r.Chance(1, 25) {
		src += "\n" // (a hoisted last chunk without line end is a recorded finding: it is glued to the next chunk)
	}
	if r.Chance(1, 5) {
		src = "package main\n\n" + src
	}
	if r.Chance(1, 10) {
		src = strings.ReplaceAll(src, "\n", "\r\n")
	}
	return fw.Case{Kind: "script", In: []byte(src)}
}

type c24stmt struct {
	toks   string // token sequence rendering (no comments)
	isFunc bool
	isDecl bool
	start  int // offset of the first token (incl. comments) of the statement
}

// c24Split splits src into top-level statements with an independent splitter (depth over all bracket kinds).
func c24Split(src []byte) (stmts []c24stmt, comments []string) {
	toks := scanTokensSemi(src)
	depth := 0
	var cur []tokExt
	first := -1
	flush := func() {
		if len(cur) == 0 {
			first = -1
			return
		}
		var b strings.Builder
		for _, t := range cur {
			if t.lit != "" {
				b.WriteString(t.lit)
			} else {
				b.WriteString(t.tok.String())
			}
			b.WriteByte(' ')
		}
		st := c24stmt{toks: b.String(), start: first}
		switch cur[0].tok {
		case token.CONST, token.TYPE, token.VAR, token.IMPORT, token.PACKAGE:
			st.isDecl = true
		case token.FUNC:
			rest := cur[1:]
			if len(rest) > 0 && rest[0].tok == token.LPAREN {
				// receiver or literal: skip the parenthesised list
				d := 0
				k := 0
				for ; k < len(rest); k++ {
					if rest[k].tok == token.LPAREN {
						d++
					} else if rest[k].tok == token.RPAREN {
						d--
						if d == 0 {
							k++
							break
						}
					}
				}
				switch {
				case k+1 < len(rest) && rest[k].tok == token.IDENT && rest[k+1].tok == token.LPAREN:
					st.isFunc, st.isDecl = true, true // method
				case k < len(rest) && rest[k].tok == token.PERIOD:
					st.isFunc, st.isDecl = true, true // func (T).name = (…): overload declaration with receiver
				case k+1 < len(rest) && rest[k].tok.IsOperator() && rest[k].tok != token.LPAREN && rest[k].tok != token.LBRACE && rest[k].tok != token.LBRACK && rest[k+1].tok == token.LPAREN:
					st.isFunc, st.isDecl = true, true // func (a T) + (b T) T: operator method
				}
			} else if len(rest) > 0 && (rest[0].tok == token.IDENT || rest[0].tok.IsOperator() && rest[0].tok != token.LPAREN) {
				st.isFunc, st.isDecl = true, true // func name(…), func T.name(…), func name = (…), func -(a T)
			}
		}
		stmts = append(stmts, st)
		cur = nil
		first = -1
	}
	for _, t := range toks {
		if t.tok == token.COMMENT {
			comments = append(comments, normComment(t.lit))
			if first < 0 {
				first = t.off
			}
			continue
		}
		if t.tok == token.SEMICOLON && depth == 0 {
			flush()
			continue
		}
		if first < 0 {
			first = t.off
		}
		switch t.tok {
		case token.LBRACE, token.LPAREN, token.LBRACK:
			depth++
		case token.RBRACE, token.RPAREN, token.RBRACK:
			if depth > 0 {
				depth--
			}
		}
		cur = append(cur, t)
	}
	flush()
	return
}

func (p *c24) Run(c fw.Case, r *fw.Rec) {
	src := c.In
	var out []byte
	var err error
	if fw.Guard(r, "formatutil.RearrangeFuncs", func() { out, err = formatutil.RearrangeFuncs(append([]byte(nil), src...), "a.xgo") }) {
		return
	}
	if err != nil {
		r.Fail("rearrange:error", "RearrangeFuncs returned an error: %v", err)
		return
	}
	fail := func(site, format string, args ...any) {
		r.Fail(site, format+"\n--- input ---\n%s\n--- output ---\n%s", append(args, src, out)...)
	}
	if len(out) != len(src) {
		fail("rearrange:length-changed", "output has %d bytes, input %d", len(out), len(src))
		return
	}
	a, b := append([]byte(nil), src...), append([]byte(nil), out...)
	sort.Slice(a, func(i, j int) bool { return a[i] < a[j] })
	sort.Slice(b, func(i, j int) bool { return b[i] < b[j] })
	if !bytes.Equal(a, b) {
		fail("rearrange:bytes-changed", "byte multiset of the output differs from the input")
		return
	}
	in, cin := c24Split(src)
	got, cout := c24Split(out)
	sort.Strings(cin)
	sort.Strings(cout)
	if strings.Join(cin, "\x00") != strings.Join(cout, "\x00") {
		fail("rearrange:comments-changed", "comment multiset changed: %q -> %q", cin, cout)
		return
	}
	first := -1
	for i, s := range in {
		if !s.isDecl {
			first = i
			break
		}
	}
	var want []string
	hoisted := false
	if first < 0 {
		r.Cover("no-statement")
		for _, s := range in {
			want = append(want, s.toks)
		}
	} else {
		for _, s := range in[:first] {
			want = append(want, s.toks)
			if strings.HasPrefix(s.toks, "var ( ") || strings.HasPrefix(s.toks, "const ( ") || strings.HasPrefix(s.toks, "type ( ") {
				r.Cover("grouped-decl-before-stmt")
			}
		}
		for _, s := range in[first:] {
			if s.isFunc {
				want = append(want, s.toks)
				hoisted = true
				if strings.HasPrefix(s.toks, "func ( ") {
					r.Cover("method-decl")
				}
			}
		}
		for _, s := range in[first:] {
			if !s.isFunc {
				want = append(want, s.toks)
				if strings.HasPrefix(s.toks, "func ( ") {
					r.Cover("func-literal-stmt")
				}
			}
		}
		// the text before the first non-declaration is unchanged
		if off := in[first].start; off >= 0 && off <= len(src) && !bytes.Equal(src[:off], out[:off]) {
			fail("rearrange:prefix-changed", "the text before the first non-declaration statement changed")
			return
		}
	}
	var gots []string
	for _, s := range got {
		gots = append(gots, s.toks)
	}
	if strings.Join(want, "\n") != strings.Join(gots, "\n") {
		site := "rearrange:wrong-order"
		if len(want) != len(gots) {
			site = "rearrange:statement-boundaries-changed"
			if !bytes.HasSuffix(src, []byte("\n")) && len(in) > 0 && in[len(in)-1].isFunc {
				site = "rearrange:hoisted-last-chunk-has-no-line-end"
			}
		}
		fail(site, "top-level statements of the output are not the expected permutation\nwant:\n  %s\ngot:\n  %s", strings.Join(want, "\n  "), strings.Join(gots, "\n  "))
		return
	}
	if hoisted {
		r.Cover("hoisted")
		r.NonTrivial()
		if len(src) < 200 {
			r.Sample(string(src))
		}
	}
	// SourceEx succeeds whenever Source succeeds on the original or on the rearrangement
	_, e1 := format.Source(src, false, "a.xgo")
	_, e2 := format.Source(out, false, "a.xgo")
	var e3 error
	if fw.Guard(r, "formatutil.SourceEx", func() { _, e3 = formatutil.SourceEx(append([]byte(nil), src...), false, "a.xgo") }) {
		return
	}
	r.Cover("sourceex-checked")
	if e1 != nil && e2 == nil {
		r.Cover("rearrange-needed-for-format")
	}
	if (e1 == nil || e2 == nil) && e3 != nil {
		fail("sourceex:fails-although-source-succeeds", "Source(original) err=%v, Source(rearranged) err=%v, but SourceEx err=%v", e1, e2, e3)
	}
	_ = fmt.Sprint
}
