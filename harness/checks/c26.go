package checks

import (
	"bytes"
	"fmt"
	"os"
	"os/exec"
	"path/filepath"
	"runtime"
	"strings"
	"syscall"

	"verif/fw"
)

// C26 — xgo fmt never loses a file at any crash point and keeps its mode (fault enumeration with an own ptrace
// supervisor around the real cmd/xgo binary).
type c26 struct {
	Base
}

func init() { fw.Register(&c26{Base: Base{Id: "C26", Lvl: "exploration"}}) }

func (p *c26) Setup(env *fw.Env) error  { p.Env = env; return nil }
func (p *c26) Case(i int) fw.Case       { return fw.Case{} }
func (p *c26) Run(c fw.Case, r *fw.Rec) {}

func (p *c26) Rule() string {
	return "the real cmd/xgo binary (built from the working tree, no build tag) formats files in a scratch directory under a ptrace supervisor that sees every thread. Pass 1 lets the run complete and records, in one global order, every file-system-mutating system call that touches the scratch tree (openat with O_CREAT/O_TRUNC/O_WRONLY/O_RDWR, write/pwrite64, close of such a file, unlink(at), rename(at/at2), link(at), chmod/fchmod(at), ftruncate, fsync). For each recorded call k the scenario is re-created from scratch and the whole process is SIGKILLed at the entry of call k (the state after call k-1), and once more after the last call. Scenarios: file kinds .xgo/.gox/.go, permission bits 0644/0600/0755/0664/0444/0640/0666/0775 (some with bits the process umask would clear), invocation by relative name, by ./sub/name, by absolute path, by directory (several files), --smart on a .go file, already formatted file (no write expected), a 300 KiB file. Oracle at every kill point: every target path exists and holds exactly the original or exactly the formatted bytes; after the complete run the bytes are the formatted text and the permission bits are the original ones."
}

func (p *c26) Assumptions() []string {
	return []string{"a crash is a SIGKILL of the process between two system calls; power loss (un-synced data) is outside this monitor", "TMPDIR points into the scratch tree so that temporary files are visible to the supervisor"}
}

func (p *c26) Floors() map[string]int {
	return map[string]int{"scenarios": p.Env.Pick(8, 40), "crash-points-explored": p.Env.Pick(40, 250), "kill-runs": p.Env.Pick(40, 250), "mode-checks-after-success": p.Env.Pick(8, 40), "scenario-kind:directory": 1, "scenario-kind:smart": 1}
}

type c26file struct {
	rel  string
	mode os.FileMode
	src  string
}

type c26scenario struct {
	name  string
	kind  string
	files []c26file
	args  []string // arguments after "fmt"; @ABS@ is replaced by the scratch work dir
}

const c26Ugly = "import \"fmt\"\nfunc  main( ) {\n  fmt.Println( \"hi\" ,%d)\n}\n"
const c26UglyGo = "package main\n\nimport \"fmt\"\nfunc  main( ) {\n  fmt.Println( \"hi\" ,%d)\n}\n"
const c26UglyGox = "var (\n  n int\n)\nfunc  Add( d int ) {\n  n+=d+%d\n}\n"

func (p *c26) scenarios() []c26scenario {
	r := p.Env.Rand("C26", 0)
	modes := []os.FileMode{0o644, 0o600, 0o755, 0o664, 0o444, 0o640, 0o666, 0o775} // incl. bits a umask of 022 would clear
	var out []c26scenario
	add := func(s c26scenario) { out = append(out, s) }
	n := p.Env.Pick(1, 16)
	for i := 0; i < n; i++ {
		for mi, m := range modes {
			id := r.Intn(1000)
			switch (i + mi) % 4 {
			case 0:
				add(c26scenario{name: fmt.Sprintf("relative-xgo-%04o", m), kind: "relative-name", files: []c26file{{"a.xgo", m, fmt.Sprintf(c26Ugly, id)}}, args: []string{"a.xgo"}})
			case 1:
				add(c26scenario{name: fmt.Sprintf("subdir-gox-%04o", m), kind: "sub-directory-name", files: []c26file{{"sub/Rect.gox", m, fmt.Sprintf(c26UglyGox, id)}}, args: []string{"./sub/Rect.gox"}})
			case 2:
				add(c26scenario{name: fmt.Sprintf("absolute-go-%04o", m), kind: "absolute-name", files: []c26file{{"b.go", m, fmt.Sprintf(c26UglyGo, id)}}, args: []string{"@ABS@/b.go"}})
			default:
				add(c26scenario{name: fmt.Sprintf("relative-go-%04o", m), kind: "relative-name", files: []c26file{{"c.go", m, fmt.Sprintf(c26UglyGo, id)}}, args: []string{"c.go"}})
			}
		}
	}
	add(c26scenario{name: "directory", kind: "directory", files: []c26file{{"p/a.xgo", 0o644, fmt.Sprintf(c26Ugly, 1)}, {"p/b.xgo", 0o600, fmt.Sprintf(c26Ugly, 2)}, {"p/c.go", 0o755, fmt.Sprintf(c26UglyGo, 3)}}, args: []string{"./p"}})
	add(c26scenario{name: "smart-go", kind: "smart", files: []c26file{{"s.go", 0o644, fmt.Sprintf(c26UglyGo, 4)}}, args: []string{"--smart", "s.go"}})
	add(c26scenario{name: "already-formatted", kind: "already-formatted", files: []c26file{{"f.xgo", 0o640, "import \"fmt\"\n\nfunc main() {\n\tfmt.Println(\"hi\")\n}\n"}}, args: []string{"f.xgo"}})
	big := strings.Builder{}
	big.WriteString("import \"fmt\"\n")
	for i := 0; i < 6000; i++ {
		fmt.Fprintf(&big, "func  f%d( ) {\n  fmt.Println( \"line %d\" )\n}\n", i, i)
	}
	add(c26scenario{name: "large-file", kind: "large-file", files: []c26file{{"big.xgo", 0o644, big.String()}}, args: []string{"big.xgo"}})
	if !p.Env.Quick() {
		add(c26scenario{name: "directory-smart", kind: "directory", files: []c26file{{"q/a.go", 0o644, fmt.Sprintf(c26UglyGo, 7)}, {"q/b.xgo", 0o444, fmt.Sprintf(c26Ugly, 8)}}, args: []string{"--smart", "./q"}})
	}
	return out
}

// ---- ptrace supervisor ----

type c26event struct {
	name string
	path string
}

var c26Sys = map[uint64]string{1: "write", 18: "pwrite64", 3: "close", 2: "open", 257: "openat", 87: "unlink", 263: "unlinkat", 82: "rename", 264: "renameat", 316: "renameat2", 86: "link", 265: "linkat", 90: "chmod", 91: "fchmod", 268: "fchmodat", 77: "ftruncate", 76: "truncate", 74: "fsync", 75: "fdatasync", 85: "creat", 88: "symlink", 266: "symlinkat", 83: "mkdir", 258: "mkdirat", 84: "rmdir"}

func peekString(tid int, addr uintptr) string {
	var out []byte
	buf := make([]byte, 64)
	for len(out) < 4096 {
		n, err := syscall.PtracePeekData(tid, addr+uintptr(len(out)), buf)
		if err != nil || n == 0 {
			break
		}
		if i := bytes.IndexByte(buf[:n], 0); i >= 0 {
			out = append(out, buf[:i]...)
			break
		}
		out = append(out, buf[:n]...)
	}
	return string(out)
}

// superviseRun starts argv under ptrace in dir; killAt > 0 kills the process at the entry of the killAt-th
// mutating call on the scratch tree. It returns the mutating calls seen and whether the process exited by itself.
func superviseRun(argv []string, dir string, env []string, root string, killAt int) (events []c26event, exited bool, exitCode int, err error) {
	type result struct {
		events []c26event
		exited bool
		code   int
		err    error
	}
	ch := make(chan result, 1)
	go func() {
		runtime.LockOSThread()
		defer runtime.UnlockOSThread()
		var res result
		defer func() { ch <- res }()
		cmd := exec.Command(argv[0], argv[1:]...)
		cmd.Dir = dir
		cmd.Env = env
		cmd.Stdout, cmd.Stderr = nil, nil
		cmd.SysProcAttr = &syscall.SysProcAttr{Ptrace: true}
		if e := cmd.Start(); e != nil {
			res.err = e
			return
		}
		pid := cmd.Process.Pid
		var ws syscall.WaitStatus
		if _, e := syscall.Wait4(pid, &ws, 0, nil); e != nil {
			res.err = e
			return
		}
		// threads of the xgo process are followed (TRACECLONE); child processes (xgo asks `go env` for the module
		// cache) are not: they do not touch the files being formatted and would cost ~10^5 stops per run
		const opts = syscall.PTRACE_O_TRACESYSGOOD | syscall.PTRACE_O_TRACECLONE | 0x100000 /* EXITKILL */
		if e := syscall.PtraceSetOptions(pid, opts); e != nil {
			res.err = e
			syscall.Kill(pid, syscall.SIGKILL)
			return
		}
		inSyscall := map[int]bool{}
		cwdOf := func(tid int) string {
			l, _ := os.Readlink(fmt.Sprintf("/proc/%d/cwd", tid))
			return l
		}
		abs := func(tid int, dirfd int64, path string) string {
			if filepath.IsAbs(path) {
				return filepath.Clean(path)
			}
			if int32(dirfd) == -100 {
				return filepath.Join(cwdOf(tid), path)
			}
			l, _ := os.Readlink(fmt.Sprintf("/proc/%d/fd/%d", tid, dirfd))
			return filepath.Join(l, path)
		}
		under := func(path string) bool { return path == root || strings.HasPrefix(path, root+"/") }
		fdPath := func(tid int, fd uint64) string {
			l, _ := os.Readlink(fmt.Sprintf("/proc/%d/fd/%d", tid, fd))
			return strings.TrimSuffix(l, " (deleted)")
		}
		killAll := func() {
			syscall.Kill(pid, syscall.SIGKILL)
			for {
				var s syscall.WaitStatus
				w, e := syscall.Wait4(-1, &s, syscall.WALL, nil)
				if e != nil || w <= 0 {
					break
				}
			}
		}
		cont := func(tid, sig int) { syscall.PtraceSyscall(tid, sig) }
		cont(pid, 0)
		for {
			var s syscall.WaitStatus
			tid, e := syscall.Wait4(-1, &s, syscall.WALL, nil)
			if e != nil {
				if e == syscall.EINTR {
					continue
				}
				res.err = e
				return
			}
			switch {
			case s.Exited() || s.Signaled():
				if tid == pid {
					res.exited = s.Exited()
					res.code = s.ExitStatus()
					return
				}
				continue
			case !s.Stopped():
				continue
			}
			sig := s.StopSignal()
			switch {
			case sig == syscall.SIGTRAP|0x80: // syscall stop
				inSyscall[tid] = !inSyscall[tid]
				if !inSyscall[tid] {
					cont(tid, 0)
					continue
				}
				var regs syscall.PtraceRegs
				if e := syscall.PtraceGetRegs(tid, &regs); e != nil {
					cont(tid, 0)
					continue
				}
				name, ok := c26Sys[regs.Orig_rax]
				if !ok {
					cont(tid, 0)
					continue
				}
				path, hit := "", false
				switch name {
				case "openat":
					path = abs(tid, int64(regs.Rdi), peekString(tid, uintptr(regs.Rsi)))
					hit = under(path) && regs.Rdx&(syscall.O_CREAT|syscall.O_TRUNC|syscall.O_WRONLY|syscall.O_RDWR) != 0
				case "open", "creat":
					path = abs(tid, -100, peekString(tid, uintptr(regs.Rdi)))
					hit = under(path) && (name == "creat" || regs.Rsi&(syscall.O_CREAT|syscall.O_TRUNC|syscall.O_WRONLY|syscall.O_RDWR) != 0)
				case "write", "pwrite64", "fchmod", "ftruncate", "fsync", "fdatasync":
					path = fdPath(tid, regs.Rdi)
					hit = under(path)
				case "close":
					path = fdPath(tid, regs.Rdi)
					if under(path) {
						if fi, e := os.Stat(fmt.Sprintf("/proc/%d/fdinfo/%d", tid, regs.Rdi)); e == nil && fi != nil {
							b, _ := os.ReadFile(fmt.Sprintf("/proc/%d/fdinfo/%d", tid, regs.Rdi))
							// flags: octal; writable if access mode != O_RDONLY
							for _, ln := range strings.Split(string(b), "\n") {
								if strings.HasPrefix(ln, "flags:") {
									var fl uint64
									fmt.Sscanf(strings.TrimSpace(strings.TrimPrefix(ln, "flags:")), "%o", &fl)
									hit = fl&3 != 0
								}
							}
						}
					}
				case "unlink", "rmdir", "chmod", "truncate", "mkdir":
					path = abs(tid, -100, peekString(tid, uintptr(regs.Rdi)))
					hit = under(path)
				case "unlinkat", "fchmodat", "mkdirat":
					path = abs(tid, int64(regs.Rdi), peekString(tid, uintptr(regs.Rsi)))
					hit = under(path)
				case "rename", "link", "symlink":
					path = abs(tid, -100, peekString(tid, uintptr(regs.Rdi))) + " -> " + abs(tid, -100, peekString(tid, uintptr(regs.Rsi)))
					hit = strings.Contains(path, root)
				case "renameat", "renameat2", "linkat":
					path = abs(tid, int64(regs.Rdi), peekString(tid, uintptr(regs.Rsi))) + " -> " + abs(tid, int64(regs.Rdx), peekString(tid, uintptr(regs.R10)))
					hit = strings.Contains(path, root)
				case "symlinkat":
					path = abs(tid, int64(regs.Rsi), peekString(tid, uintptr(regs.Rdx)))
					hit = under(path)
				}
				if hit {
					res.events = append(res.events, c26event{name, strings.ReplaceAll(path, root, "$W")})
					if killAt > 0 && len(res.events) == killAt {
						killAll()
						return
					}
				}
				cont(tid, 0)
			case sig == syscall.SIGTRAP: // ptrace event (clone/fork/exec)
				cont(tid, 0)
			case sig == syscall.SIGSTOP && tid != pid && !inSyscall[tid]:
				// initial stop of a new thread/child
				cont(tid, 0)
			default:
				cont(tid, int(sig)) // deliver the signal (SIGURG preemption etc.)
			}
		}
	}()
	res := <-ch
	return res.events, res.exited, res.code, res.err
}

func (p *c26) setup(work string, sc c26scenario) error {
	os.RemoveAll(work)
	if err := os.MkdirAll(filepath.Join(work, "tmp"), 0o755); err != nil {
		return err
	}
	for _, f := range sc.files {
		path := filepath.Join(work, f.rel)
		os.MkdirAll(filepath.Dir(path), 0o755)
		if err := os.WriteFile(path, []byte(f.src), 0o644); err != nil {
			return err
		}
		if err := os.Chmod(path, f.mode); err != nil {
			return err
		}
	}
	return nil
}

func (p *c26) RunCustom(env *fw.Env, d *fw.Driver) error {
	p.Env = env
	syscall.Umask(0o022) // the usual umask: modes with group/other write bits must survive it
	bin := filepath.Join(env.Scratch, "xgo")
	cmd := exec.Command("go", "build", "-o", bin, "./cmd/xgo")
	cmd.Dir = env.Repo
	cmd.Env = append(os.Environ(), "GOFLAGS=-mod=mod", "GOPROXY=off", "GOSUMDB=off", "GOTOOLCHAIN=local")
	if out, err := cmd.CombinedOutput(); err != nil {
		return fmt.Errorf("building cmd/xgo: %v\n%s", err, clipS(string(out), 1500))
	}
	agg := &fw.Agg{Cover: map[string]int{}}
	work := filepath.Join(env.Scratch, "w")
	for si, sc := range p.scenarios() {
		agg.N++
		agg.Cover["scenarios"]++
		agg.Cover["scenario-kind:"+sc.kind]++
		args := []string{bin, "fmt"}
		for _, a := range sc.args {
			args = append(args, strings.ReplaceAll(a, "@ABS@", work))
		}
		penv := append(os.Environ(), "TMPDIR="+filepath.Join(work, "tmp"), "GOFLAGS=-mod=mod", "GOPROXY=off")
		mkCase := func(k int, at string) fw.Case {
			return fw.Case{Idx: si, Kind: sc.name, P: map[string]string{"kill-at": fmt.Sprint(k), "call": at}}
		}
		// pass 1: complete run
		if err := p.setup(work, sc); err != nil {
			return err
		}
		events, exited, code, err := superviseRun(args, work, penv, work, 0)
		if err != nil {
			d.Inconclusive(fmt.Sprintf("scenario %s: supervisor: %v", sc.name, err))
			continue
		}
		if !exited || code != 0 {
			d.Inconclusive(fmt.Sprintf("scenario %s: xgo fmt did not exit normally (exited=%v code=%d)", sc.name, exited, code))
			continue
		}
		formatted := map[string]string{}
		for _, f := range sc.files {
			path := filepath.Join(work, f.rel)
			b, err := os.ReadFile(path)
			if err != nil {
				d.AddViolation(fw.Violation{Idx: si, Site: "after-success:file-missing", Msg: fmt.Sprintf("scenario %s: after a successful `xgo fmt %s` the path %s does not exist: %v\ncalls: %v", sc.name, strings.Join(sc.args, " "), f.rel, err, events), Case: mkCase(0, "")})
				continue
			}
			formatted[f.rel] = string(b)
			fi, _ := os.Stat(path)
			agg.Cover["mode-checks-after-success"]++
			if string(b) != f.src {
				agg.Cover["files-rewritten"]++
				if fi.Mode().Perm() != f.mode {
					d.AddViolation(fw.Violation{Idx: si, Site: "after-success:permission-bits-changed", Msg: fmt.Sprintf("scenario %s: %s had mode %04o before `xgo fmt` and %04o after it\ncalls: %v", sc.name, f.rel, f.mode, fi.Mode().Perm(), events), Case: mkCase(0, "")})
				}
			} else {
				agg.Cover["files-left-unchanged"]++
			}
		}
		agg.Cover["mutating-calls-recorded"] += len(events)
		if len(events) > 0 {
			agg.NonTriv++
			d.AddHash(fw.HashString(fmt.Sprint(sc.name, events)))
		}
		if len(agg.Samples) < 3 {
			agg.Samples = append(agg.Samples, map[string]any{"scenario": sc.name, "calls": fmt.Sprint(events)})
		}
		// pass 2: kill at the entry of every recorded call
		reported := map[string]bool{}
		for k := 1; k <= len(events); k++ {
			if err := p.setup(work, sc); err != nil {
				return err
			}
			ev, exited2, _, err := superviseRun(args, work, penv, work, k)
			agg.Cover["kill-runs"]++
			if err != nil {
				d.Inconclusive(fmt.Sprintf("scenario %s kill %d: supervisor: %v", sc.name, k, err))
				continue
			}
			if exited2 || len(ev) != k {
				d.Inconclusive(fmt.Sprintf("scenario %s: the run did not reach mutating call %d again (saw %d)", sc.name, k, len(ev)))
				continue
			}
			if ev[k-1] != events[k-1] && ev[k-1].name != events[k-1].name {
				d.Inconclusive(fmt.Sprintf("scenario %s: call %d is %v in pass 2 but %v in pass 1 (nondeterministic run)", sc.name, k, ev[k-1], events[k-1]))
				continue
			}
			agg.Cover["crash-points-explored"]++
			agg.Cover["crash-point-before:"+events[k-1].name]++
			for _, f := range sc.files {
				path := filepath.Join(work, f.rel)
				b, err := os.ReadFile(path)
				what := ""
				switch {
				case err != nil:
					what = "file-missing"
				case string(b) == f.src || string(b) == formatted[f.rel]:
				case len(b) == 0:
					what = "file-empty"
				default:
					what = "file-partially-written"
				}
				if what == "" {
					continue
				}
				prev := "start"
				if k > 1 {
					prev = events[k-2].name
				}
				site := "crash:" + what + ":between-" + prev + "-and-" + events[k-1].name
				if reported[site] {
					continue
				}
				reported[site] = true
				d.AddViolation(fw.Violation{Idx: si, Site: site, Msg: fmt.Sprintf("scenario %s (`xgo fmt %s`, mode %04o): killed before mutating call %d (%s %s): path %s: %s\ncalls of the complete run: %v", sc.name, strings.Join(sc.args, " "), f.mode, k, events[k-1].name, events[k-1].path, f.rel, what, events), Case: mkCase(k, events[k-1].name)})
			}
		}
	}
	d.AddAgg(agg)
	os.RemoveAll(work)
	return nil
}

// Replay re-runs one scenario (all its crash points).
func (p *c26) Replay(env *fw.Env, c fw.Case) int {
	fmt.Println("C26 replays by re-running the check: ./check C26 quick (scenario", c.Kind, "kill-at", c.P["kill-at"], ")")
	d := fw.NewDriver(p, env)
	if err := p.RunCustom(env, d); err != nil {
		fmt.Println("inconclusive:", err)
		return 2
	}
	n := 0
	for _, v := range d.Viol {
		if v.Case.Kind == c.Kind {
			fmt.Printf("VIOLATION property=C26 replay=-\n  site=%s\n  %s\n", v.Site, v.Msg)
			n++
		}
	}
	if n > 0 {
		return 1
	}
	fmt.Println("replay: property C26 held on scenario", c.Kind)
	return 0
}
