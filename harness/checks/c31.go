package checks

import (
	gotoken "go/token"
	"strings"

	tplast "github.com/goplus/xgo/tpl/ast"
	tplparser "github.com/goplus/xgo/tpl/parser"

	"verif/fw"
	"verif/gen"
)

// C31 — TPL grammar text parses with the documented operator precedence.
type c31 struct {
	Base
	atoms []*gen.TG
}

func init() { fw.Register(&c31{Base: Base{Id: "C31", Lvl: "exploration"}}) }

func (p *c31) Setup(env *fw.Env) error {
	p.Env = env
	for _, n := range []string{"a", "b", "c", "expr", "IDENT", "INT", "STRING"} {
		p.atoms = append(p.atoms, gen.TIdent(n))
	}
	for _, l := range []string{`"if"`, `"+"`, `"++"`, `"%"`, `'*'`, `'|'`, `"("`, "`raw`", `"?"`} {
		p.atoms = append(p.atoms, gen.TLit(l))
	}
	p.N = env.Pick(60000, 2000000)
	p.RuleS = "random TPL expression trees (depth<=5; sequences, choices, * + ?, %, ++, nested sequences/choices) printed with the minimal parentheses implied by unary > ++ > % (left-assoc) > sequence > |, parsed as `r = <expr>`; every 4th case deletes one operand/token to produce a missing-factor grammar which must yield an error. Non-trivial = tree with >=2 operators; distinct by printed text."
	p.Assume = []string{"the harness printer restates the documented precedence; tpl/parser.ParseFile is the boundary"}
	p.Floor = map[string]int{"#evaluations": p.N / 2, "#nontrivial": 5000, "roundtrip-ok": p.N / 3, "missing-factor-rejected": p.N / 20,
		"op:%": 1000, "op:++": 1000, "op:*": 1000, "op:+": 1000, "op:?": 1000, "op:seq": 1000, "op:choice": 1000, "parens-printed": 1000}
	return nil
}

func (p *c31) Case(i int) fw.Case {
	r := p.rnd(i)
	g := gen.RandTG(r, gen.TGOpts{Atoms: p.atoms, MaxDepth: r.Range(2, 5)}, 0)
	txt := g.String()
	if i%4 == 3 {
		// missing factor: damage the text
		broken := breakTPL(r, txt)
		return fw.Case{Kind: "missing", In: []byte("r = " + broken + "\n")}
	}
	return fw.Case{Kind: "roundtrip", In: []byte("r = " + txt + "\n"), Aux: []string{g.Shape()}}
}

// breakTPL produces a grammar expression with a missing factor.
func breakTPL(r *fw.Rand, txt string) string {
	switch r.Intn(8) {
	case 0:
		return txt + " %"
	case 1:
		return txt + " ++"
	case 2:
		return txt + " |"
	case 3:
		return "| " + txt
	case 4:
		return txt + " *"
	case 5:
		return "( )"
	case 6:
		return txt + " % | a"
	default:
		return ""
	}
}

func (p *c31) Run(c fw.Case, r *fw.Rec) {
	var f *tplast.File
	var err error
	if fw.Guard(r, "tpl/parser.ParseFile", func() {
		fset := gotoken.NewFileSet()
		f, err = tplparser.ParseFile(fset, "g.tpl", c.In, nil)
	}) {
		return
	}
	if c.Kind == "missing" {
		if err == nil {
			shape := "<no rule>"
			if f != nil && len(f.Decls) > 0 {
				shape = tplShape(f.Decls[0].(*tplast.Rule).Expr)
			}
			r.Fail("tplparse:missing-factor-accepted", "grammar %q has a missing factor but parsed without error to %s", c.In, shape)
			return
		}
		r.Cover("missing-factor-rejected")
		r.NonTrivial()
		return
	}
	want := c.Aux[0]
	if err != nil {
		r.Fail("tplparse:valid-expression-rejected", "grammar %q (shape %s) rejected: %v", c.In, want, err)
		return
	}
	if f == nil || len(f.Decls) != 1 {
		r.Fail("tplparse:rule-count", "grammar %q: expected exactly one rule", c.In)
		return
	}
	got := tplShape(f.Decls[0].(*tplast.Rule).Expr)
	if got != want {
		site := "tplparse:tree-differs"
		r.Fail(site, "grammar %q parsed to\n  %s\nbut the documented precedence implies\n  %s", c.In, got, want)
		return
	}
	r.Cover("roundtrip-ok")
	for _, op := range []string{" % ", " ++ ", "(*", "(+", "(?", "{seq:", "{choice:"} {
		if strings.Contains(want, op) {
			k := strings.Trim(op, " ({:")
			r.Cover("op:" + k)
		}
	}
	if strings.Contains(string(c.In), "(") {
		r.Cover("parens-printed")
	}
	if strings.Count(want, "(")+strings.Count(want, "{") >= 2 {
		r.NonTrivial()
		r.Sample(map[string]string{"text": strings.TrimSpace(string(c.In)), "shape": want})
	}
}
