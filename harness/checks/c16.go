package checks

import (
	"fmt"
	goscanner "go/scanner"
	gotoken "go/token"
	"strings"

	"github.com/goplus/xgo/scanner"
	"github.com/goplus/xgo/token"

	"verif/fw"
	"verif/gen"
)

// C16 — the scanner agrees with go/scanner on Go lexemes.
type c16 struct {
	Base
	nNum, nEsc int
	escLen     int
}

const c16NumAlpha = "0179_.xboep+-afi"
const c16EscAlpha = "\\xuU07an'\"8f"

func init() { fw.Register(&c16{Base: Base{Id: "C16", Lvl: "exploration"}}) }

func (p *c16) Setup(env *fw.Env) error {
	p.Env = env
	p.nNum = gen.CountStrings(len(c16NumAlpha), env.Pick(4, 6))
	p.escLen = env.Pick(4, 5)
	p.nEsc = 2 * gen.CountStrings(len(c16EscAlpha), p.escLen)
	p.N = p.nNum + p.nEsc + env.Pick(60000, 3000000)
	p.RuleS = fmt.Sprintf("(a) exhaustive: all strings of length<=%d over %q; (b) exhaustive: all bodies of length<=%d over %q inside \"…\" and '…'; (c) random Go lexeme streams with every separator kind incl. comments. The domain filter is computed on the go/scanner result only (no '#','$','?' ILLEGAL tokens, no number directly followed by identifier/keyword, no c/C/py directly followed by '\"', no '=' '-' '<' token directly followed by '>'). Both comment modes. Non-trivial = in-domain input with >=2 tokens.", env.Pick(4, 6), c16NumAlpha, p.escLen, c16EscAlpha)
	p.Assume = []string{"go/scanner of the installed toolchain is the reference", "error agreement is on offsets, not messages"}
	p.Floor = map[string]int{"#evaluations": p.N / 2, "#nontrivial": 20000, "in-domain": p.N / 4}
	for _, k := range []string{"IDENT", "INT", "FLOAT", "IMAG", "CHAR", "STRING", "COMMENT", ";auto", ";", "func", "+", "<-", "...", "&^=", "ILLEGAL", "errors-agreed"} {
		p.Floor["go:"+k] = 5
	}
	return nil
}

func (p *c16) Exhaustive() bool { return false }

func (p *c16) Case(i int) fw.Case {
	if i < p.nNum {
		return fw.Case{Kind: "num", In: []byte(gen.NthString(c16NumAlpha, i))}
	}
	i -= p.nNum
	if i < p.nEsc {
		body := gen.NthString(c16EscAlpha, i/2)
		q := "\""
		if i%2 == 1 {
			q = "'"
		}
		return fw.Case{Kind: "esc", In: []byte(q + body + q)}
	}
	r := p.rnd(i)
	return fw.Case{Kind: "lex", In: []byte(gen.LexStream(r, r.Range(1, 14), true, true))}
}

type ltok struct {
	name string
	off  int
	lit  string
}

func (p *c16) Run(c fw.Case, r *fw.Rec) {
	src := c.In
	for _, withComments := range []bool{false, true} {
		// reference
		gfset := gotoken.NewFileSet()
		gfile := gfset.AddFile("a.go", -1, len(src))
		var gs goscanner.Scanner
		var gerrs []int
		gmode := goscanner.Mode(0)
		if withComments {
			gmode = goscanner.ScanComments
		}
		gs.Init(gfile, src, func(pos gotoken.Position, msg string) { gerrs = append(gerrs, pos.Offset) }, gmode)
		var gt []ltok
		inDomain := true
		why := ""
		var prev gotoken.Token = gotoken.ILLEGAL
		prevEnd := -1
		prevLit := ""
		for {
			pos, tok, lit := gs.Scan()
			off := int(pos) - gfile.Base()
			name := tok.String()
			if tok == gotoken.SEMICOLON {
				if lit == "\n" {
					name = ";auto"
				}
			}
			gt = append(gt, ltok{name, off, lit})
			if tok == gotoken.EOF {
				break
			}
			// domain filter (reference side only)
			if tok == gotoken.ILLEGAL && (lit == "#" || lit == "$" || lit == "?") {
				inDomain, why = false, "xgo-char"
			}
			adjacent := off == prevEnd
			if adjacent {
				switch {
				case (prev == gotoken.INT || prev == gotoken.FLOAT || prev == gotoken.IMAG) && (tok == gotoken.IDENT || tok.IsKeyword()):
					inDomain, why = false, "number+ident"
				case prev == gotoken.IMAG && off < len(src) && (isLetterDigit(src[off])):
					// "0i0": XGo reads a number followed by the unit suffix "i0" (unit literals are an XGo-only lexeme)
					inDomain, why = false, "number+suffix"
				case prev == gotoken.IDENT && (prevLit == "c" || prevLit == "C" || prevLit == "py") && tok == gotoken.STRING && strings.HasPrefix(lit, "\""):
					inDomain, why = false, "cstring"
				case (prev == gotoken.ASSIGN || prev == gotoken.SUB || prev == gotoken.LSS) && off < len(src) && src[off] == '>':
					inDomain, why = false, "xgo-arrow"
				}
			}
			prev, prevLit = tok, lit
			switch {
			case lit == "\n" && tok == gotoken.SEMICOLON:
				prevEnd = -1
			case tok == gotoken.ILLEGAL:
				prevEnd = -1
			case lit != "" && tok != gotoken.SEMICOLON:
				n := matchCR(src, off, lit)
				if n < 0 {
					prevEnd = -1
				} else {
					prevEnd = off + n
				}
			default:
				prevEnd = off + len(tok.String())
			}
		}
		if !inDomain {
			r.Skip("out-of-domain:" + why)
			return
		}
		// implementation under test
		fset := token.NewFileSet()
		file := fset.AddFile("a.xgo", -1, len(src))
		var s scanner.Scanner
		var xerrs []int
		var xt []ltok
		mode := scanner.Mode(0)
		if withComments {
			mode = scanner.ScanComments
		}
		if fw.Guard(r, "scanner.Scan", func() {
			s.Init(file, src, func(pos token.Position, msg string) { xerrs = append(xerrs, pos.Offset) }, mode)
			for n := 0; n < len(src)*2+8; n++ {
				pos, tok, lit := s.Scan()
				name := tok.String()
				if tok == token.SEMICOLON && lit == "\n" {
					name = ";auto"
				}
				xt = append(xt, ltok{name, int(pos) - file.Base(), lit})
				if tok == token.EOF {
					break
				}
			}
		}) {
			return
		}
		r.Cover("in-domain")
		for _, t := range gt {
			r.Cover("go:" + t.name)
		}
		// go/scanner >= 1.20 reports an auto-semicolon that is triggered by a comment *after* the comment and at the
		// newline's offset; go <= 1.19 (and XGo, go.mod "go 1.18") report it *before* the comment at the comment's
		// offset. Both are "the same inserted semicolon": compare comments and non-comments as two sequences and
		// ignore the offset of auto-semicolons.
		norm := func(ts []ltok) (toks, comments []ltok) {
			for _, t := range ts {
				if t.name == "COMMENT" {
					comments = append(comments, t)
					continue
				}
				if t.name == ";auto" {
					t.off = -1
				}
				toks = append(toks, t)
			}
			return
		}
		var gc, xc []ltok
		gt, gc = norm(gt)
		xt, xc = norm(xt)
		if fmt.Sprint(gc) != fmt.Sprint(xc) {
			r.Fail("diff:comments", "comments differ: go/scanner=%v xgo=%v", gc, xc)
			return
		}
		for k := 0; k < len(gt) || k < len(xt); k++ {
			var g, x ltok
			g.name, x.name = "<none>", "<none>"
			if k < len(gt) {
				g = gt[k]
			}
			if k < len(xt) {
				x = xt[k]
			}
			if g == x {
				continue
			}
			prevName := "<start>"
			if k > 0 {
				prevName = gt[k-1].name
			}
			var site string
			switch {
			case x.name == ";auto" && g.name != ";auto":
				site = "diff:extra-autosemi-after:" + prevName
			case g.name == ";auto" && x.name != ";auto":
				site = "diff:missing-autosemi-after:" + prevName
			case g.name != x.name:
				site = "diff:kind:go=" + g.name + ":xgo=" + x.name
			case g.off != x.off:
				site = "diff:offset:" + g.name
			default:
				site = "diff:literal:" + g.name
			}
			r.Fail(site, "comments=%v token #%d differs: go/scanner=(%s,%d,%q) xgo=(%s,%d,%q)", withComments, k, g.name, g.off, g.lit, x.name, x.off, x.lit)
			if strings.HasPrefix(site, "diff:extra-autosemi-after:") && k < len(xt) {
				// resynchronise so that one (possibly known) extra semicolon cannot mask a later difference
				xt = append(xt[:k:k], xt[k+1:]...)
				k--
				continue
			}
			return
		}
		if fmt.Sprint(gerrs) != fmt.Sprint(xerrs) {
			r.Fail("diff:error-offsets", "comments=%v error offsets differ: go/scanner=%v xgo=%v", withComments, gerrs, xerrs)
			return
		}
		if len(gerrs) > 0 {
			r.Cover("go:errors-agreed")
		}
		if len(gt) >= 3 {
			r.NonTrivial()
			if c.Kind == "lex" {
				r.Sample(fw.Quote(src, 80))
			}
		}
	}
}

func isLetterDigit(b byte) bool {
	return b == '_' || b >= '0' && b <= '9' || b >= 'a' && b <= 'z' || b >= 'A' && b <= 'Z' || b >= 0x80
}
