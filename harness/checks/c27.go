package checks

import (
	"fmt"
	"sort"
	"strings"

	"github.com/goplus/xgo/tpl"

	"verif/fw"
	"verif/gen"
)

// C27 — grammar compilation never panics.
type c27 struct {
	Base
	det   []string
	srcs  []string
	atoms []*gen.TG
}

func init() { fw.Register(&c27{Base: Base{Id: "C27", Lvl: "exploration"}}) }

func (p *c27) Setup(env *fw.Env) error {
	p.Env = env
	p.srcs = tplCorpus(env)
	// exhaustive: every 1-byte CHAR/STRING spelling through all escape forms
	for b := 0; b < 256; b++ {
		p.det = append(p.det,
			fmt.Sprintf("doc = '\\x%02x'", b), fmt.Sprintf("doc = \"\\x%02x\"", b),
			fmt.Sprintf("doc = '\\%03o'", b), fmt.Sprintf("doc = \"\\%03o\"", b),
			fmt.Sprintf("doc = '\\u%04x'", b), fmt.Sprintf("doc = \"\\u%04x\"", b))
		if b >= 0x20 && b != '\'' && b != '\\' && b < 0x7f {
			p.det = append(p.det, fmt.Sprintf("doc = '%c'", b))
		}
		if b >= 0x20 && b != '"' && b != '\\' && b < 0x7f {
			p.det = append(p.det, fmt.Sprintf("doc = \"%c\"", b), fmt.Sprintf("doc = \"%c%c\"", b, b))
		}
	}
	// every token spelling +-1 mutation
	var spells []string
	for _, s := range tplSpell {
		spells = append(spells, s)
	}
	sort.Strings(spells)
	for _, s := range spells {
		q := func(x string) string { return "doc = " + fmt.Sprintf("%q", x) }
		p.det = append(p.det, q(s))
		for i := range s {
			p.det = append(p.det, q(s[:i]+s[i+1:]), q(s[:i]+s[i:i+1]+s[i:]))
		}
		for _, ch := range "=+-*<>&|!.:~@$?%^" {
			p.det = append(p.det, q(s+string(ch)), q(string(ch)+s))
		}
	}
	p.det = append(p.det, "", "doc", "doc =", "doc = ", "doc = doc", "doc = x", "doc = a\na = doc", "doc = INT\ndoc = INT", "a = b INT\nb = a STRING",
		"doc = \"\"", "doc = ''", "doc = 'ab'", "doc = \"\\q\"", "doc = `raw`", "doc = ``", "doc = INT => {", "doc = INT => { return self }", "doc = INT => { { }",
		"doc = *", "doc = ( INT", "doc = INT )", "doc = INT % ", "doc = | INT", "doc = EOF", "doc = COMMENT", "doc = SPACE", "doc = QSTRING RAWSTRING",
		"doc = 1", "doc = 1.5", "= INT", "doc == INT", "doc = INT;;", "doc = \"\\x9e\"", "doc = '\\x9e'", "doc = 'é'", "doc = \"é\"", "doc = \"\\u00e9\"")
	for _, n := range append(append([]string{"a", "b", "doc", "undefined_rule", "SPACE", "EOF", "QSTRING", "RAWSTRING", "COMMENT", "UNIT", "RAT", "LBRACE"}, gen.TokenClasses...)) {
		p.atoms = append(p.atoms, gen.TIdent(n))
	}
	for _, l := range append(append([]string{`""`, `''`, `'\x9e'`, `"\xff"`, `'ab'`, `"a b"`, "`r`", `"**"`, `"@"`, `"~"`, `"$"`, `"=>"`, `"...."`, `"1"`, `"_x"`}, gen.TplKeywords...), gen.TplOpLits...) {
		p.atoms = append(p.atoms, gen.TLit(l))
	}
	p.N = len(p.det) + env.Pick(40000, 1500000)
	p.RuleS = fmt.Sprintf("%d deterministic grammars: every byte value through 6 escape spellings in CHAR and STRING literals, every TPL token spelling with each 1-character deletion/duplication/prefix/suffix mutation, a list of malformed rule shapes; then random multi-rule grammars from a grammar-of-grammars (all operators, duplicate/undefined/recursive rules, hostile literals, => {…} bodies) and byte-mutants of the repository's grammars. Each is compiled with tpl.New and tpl.NewEx. Non-trivial = grammar with >=1 rule that reaches tpl/cl (parses) or has >=10 bytes; distinct by text.", len(p.det))
	p.Assume = []string{"ret-proc parameters are not exercised (no XGo closures are compiled here)"}
	p.Floor = map[string]int{"#evaluations": p.N / 2, "#nontrivial": 5000, "compiled-ok": 500, "compile-error": 2000}
	return nil
}

func (p *c27) Case(i int) fw.Case {
	if i < len(p.det) {
		return fw.Case{Kind: "det", In: []byte(p.det[i])}
	}
	r := p.rnd(i)
	switch r.Intn(10) {
	case 0, 1, 2:
		s := fw.Pick(r, p.srcs)
		return fw.Case{Kind: "mut", In: gen.Mutate(r, gen.Window(r, []byte(s), 400), []byte(fw.Pick(r, p.srcs)), 3)}
	default:
		return fw.Case{Kind: "gen", In: []byte(p.randGrammar(r))}
	}
}

func (p *c27) randGrammar(r *fw.Rand) string {
	nr := r.Range(1, 4)
	names := []string{"doc", "a", "b", "c"}[:nr]
	var b strings.Builder
	for i := 0; i < nr; i++ {
		name := names[i]
		if r.Chance(1, 12) {
			name = fw.Pick(r, names) // duplicate rule
		}
		g := gen.RandTG(r, gen.TGOpts{Atoms: p.atoms, MaxDepth: r.Range(1, 4)}, 0)
		b.WriteString(name + " = " + g.String())
		if r.Chance(1, 8) {
			b.WriteString(fw.Pick(r, []string{" => { return self }", " => {", " => { { } }", " => }"}))
		}
		b.WriteString(fw.Pick(r, []string{"\n", "\n", ";\n", "\n\n", " "}))
	}
	return b.String()
}

func (p *c27) Run(c fw.Case, r *fw.Rec) {
	src := string(c.In)
	var err error
	if fw.Guard(r, "tpl.New", func() { _, err = tpl.New(src) }) {
		return
	}
	if fw.Guard(r, "tpl.NewEx", func() { _, _ = tpl.NewEx(src, "g.tpl", 3, 5) }) {
		return
	}
	if err == nil {
		r.Cover("compiled-ok")
	} else {
		r.Cover("compile-error")
	}
	if len(src) >= 10 {
		r.NonTrivial()
		if c.Kind == "gen" {
			r.Sample(src)
		}
	}
}
