package checks

import (
	"fmt"
	"strings"

	"verif/fw"
)

// C02 — XGo collection sugar evaluates like its documented Go expansion.
type c02 struct {
	Base
}

func init() { fw.Register(&c02{Base: Base{Id: "C02", Lvl: "exploration"}}) }

func (p *c02) Setup(env *fw.Env) error {
	p.Env = env
	xgocWarm(env)
	p.N = env.Pick(40, 1500)
	p.RuleS = "each case is an XGo program of 14 generated statements and, written independently by the generator, its Go expansion; both are built and run and must print the same lines. Constructs: list literals (int, mixed int/float, string, nested, empty), map literals (string->int, mixed values, empty), append statements (a <- v; a <- v1, v2; a <- b...), for-in loops over slices, strings, maps (accumulated) and ranges with index/value forms, the in spelling and if filters, list comprehensions (filter, index form, two and three for-phrases with per-phrase filters, nested comprehension, over a range, over a map with order-insensitive result), map comprehensions, select comprehensions (with and without ok) and existence comprehensions, command-style calls (functions, methods, variadic, nested calls, lambda argument). Element expressions, sources and filters are traced calls (tr, src, pr) so that the order and number of evaluations is part of the output. The Go expansion follows doc/docs.md: a comprehension is a closure with nested range loops, the last for-phrase outermost, each source evaluated where its loop starts."
	p.Assume = []string{"map sources are consumed order-insensitively (sums, sorted keys, map results)", "[] is []any and {} is map[string]any as the compiler types them (printed with %T on both sides)"}
	p.Floor = map[string]int{"#evaluations": p.N * 9 / 10, "#nontrivial": p.N * 8 / 10, "pairs-executed": p.N * 8 / 10, "stdout-lines-compared": p.N * 12, "construct:list-comprehension": p.N, "construct:multi-phrase-comprehension": p.N / 2, "construct:select-comprehension": p.N / 2, "construct:exists-comprehension": p.N / 4, "construct:map-comprehension": p.N / 2, "construct:append-statement": p.N / 2, "construct:for-in-filter": p.N / 4, "construct:command-call": p.N / 2, "construct:literal": p.N / 4}
	return nil
}

func (p *c02) Case(i int) fw.Case { return fw.Case{Kind: "sugar"} }

const c02Common = `
var trace []int

func tr(x int) int {
	trace = append(trace, x)
	return x
}

func src(id int, xs []int) []int {
	trace = append(trace, -id)
	return xs
}

func pr(x int) bool {
	trace = append(trace, 100+x)
	return x%2 == 0
}

func show(tag string, k int, vs ...any) {
	fmt.Printf("%s: %d", tag, k)
	for _, v := range vs {
		fmt.Printf(" %T %v", v, v)
	}
	fmt.Printf(" trace %v\n", trace)
	trace = nil
}

type box struct{ n int }

func (b *box) put(k int, vs ...int) {
	for _, v := range vs {
		b.n += v
	}
	show("command/method", k, b.n)
}

func apply(k int, f func(int) int, x int) {
	show("command/lambda", k, f(x))
}
`

func (p *c02) Run(c fw.Case, r *fw.Rec) {
	pairWorker(p.Env, p.Id, c, r, p.build(c, r))
}

func intsLit(r *fw.Rand, n int) []int {
	out := make([]int, n)
	for i := range out {
		out[i] = r.Range(0, 9)
	}
	return out
}

func joinInts(xs []int) string {
	var s []string
	for _, x := range xs {
		s = append(s, fmt.Sprint(x))
	}
	return strings.Join(s, ", ")
}

func (p *c02) build(c fw.Case, r *fw.Rec) pairBuild {
	rnd := p.rnd(c.Idx)
	var x, g strings.Builder // XGo body, Go body
	add := func(xs, gs string) { x.WriteString(xs); g.WriteString(gs) }
	both := func(s string) { add(s, s) }
	xsv := intsLit(rnd, rnd.Range(3, 6))
	ysv := intsLit(rnd, rnd.Range(1, 3))
	both("\tvar out []int\n\t_ = out\n\tb0 := &box{}\n\t_ = b0\n")
	add("\txs := ["+joinInts(xsv)+"]\n\tys := ["+joinInts(ysv)+"]\n\tm := {\"a\": 1, \"b\": 2, \"c\": 5}\n",
		"\txs := []int{"+joinInts(xsv)+"}\n\tys := []int{"+joinInts(ysv)+"}\n\tm := map[string]int{\"a\": 1, \"b\": 2, \"c\": 5}\n")
	both("\t_, _, _ = xs, ys, m\n")
	filter := func(v string) (string, string) { // XGo/Go condition text (identical syntax)
		switch rnd.Intn(4) {
		case 0:
			return "pr(" + v + ")", "pr(" + v + ")"
		case 1:
			return v + " > 2", v + " > 2"
		case 2:
			return v + "%2 == 1", v + "%2 == 1"
		default:
			return "tr(" + v + ") < 6", "tr(" + v + ") < 6"
		}
	}
	elem := func(v string) string {
		return fw.Pick(rnd, []string{v, "tr(" + v + ")", v + "*" + v, "tr(" + v + ")+1", v + "*10"})
	}
	source := func(id int) (string, string) {
		switch rnd.Intn(5) {
		case 0:
			return "xs", "xs"
		case 1:
			return "ys", "ys"
		case 2:
			return fmt.Sprintf("src(%d, xs)", id), fmt.Sprintf("src(%d, xs)", id)
		case 3:
			l := intsLit(rnd, rnd.Range(0, 3))
			if len(l) == 0 { // `[]` is []any in XGo: an empty int source is written as a slice of xs
				return "xs[:0]", "xs[:0]"
			}
			return "[" + joinInts(l) + "]", "[]int{" + joinInts(l) + "}"
		default:
			return fmt.Sprintf("src(%d, ys)", id), fmt.Sprintf("src(%d, ys)", id)
		}
	}
	for k := 0; k < 14; k++ {
		switch sel := rnd.Intn(21); sel {
		case 0, 20: // literals
			r.Cover("construct:literal")
			switch rnd.Intn(8) {
			case 6: // a literal takes the type of the variable it is assigned to
				add(fmt.Sprintf("\t{\n\t\tvar fl []float64\n\t\tvar mf map[string]float64\n\t\tfl = [1, %d]\n\t\tmf = {\"k\": %d}\n\t\tshow \"literal/assigned-to-typed-variable\", %d, fl, mf\n\t}\n", k, k, k),
					fmt.Sprintf("\t{\n\t\tvar fl []float64\n\t\tvar mf map[string]float64\n\t\tfl = []float64{1, %d}\n\t\tmf = map[string]float64{\"k\": %d}\n\t\tshow(\"literal/assigned-to-typed-variable\", %d, fl, mf)\n\t}\n", k, k, k))
			case 7: // … also in an assignment to several variables of different types
				add(fmt.Sprintf("\t{\n\t\tvar fl []float64\n\t\tvar is []int\n\t\tvar mf map[string]float64\n\t\tvar ss []string\n\t\tfl, is = [1, %d], [tr(%d)]\n\t\tmf, ss, fl = {\"k\": %d}, [\"q\"], [2]\n\t\tshow \"literal/assigned-to-typed-variables\", %d, fl, is, mf, ss\n\t}\n", k, k, k, k),
					fmt.Sprintf("\t{\n\t\tvar fl []float64\n\t\tvar is []int\n\t\tvar mf map[string]float64\n\t\tvar ss []string\n\t\tfl, is = []float64{1, %d}, []int{tr(%d)}\n\t\tmf, ss, fl = map[string]float64{\"k\": %d}, []string{\"q\"}, []float64{2}\n\t\tshow(\"literal/assigned-to-typed-variables\", %d, fl, is, mf, ss)\n\t}\n", k, k, k, k))
			case 0:
				l := intsLit(rnd, rnd.Range(1, 4))
				add(fmt.Sprintf("\tshow \"literal/list-int\", %d, [%s, tr(7)]\n", k, joinInts(l)), fmt.Sprintf("\tshow(\"literal/list-int\", %d, []int{%s, tr(7)})\n", k, joinInts(l)))
			case 1:
				add(fmt.Sprintf("\tshow \"literal/list-mixed-number\", %d, [1, 2.5, %d]\n", k, k), fmt.Sprintf("\tshow(\"literal/list-mixed-number\", %d, []float64{1, 2.5, %d})\n", k, k))
			case 2:
				add(fmt.Sprintf("\tshow \"literal/list-string\", %d, [\"a\", \"b%d\"]\n", k, k), fmt.Sprintf("\tshow(\"literal/list-string\", %d, []string{\"a\", \"b%d\"})\n", k, k))
			case 3:
				add(fmt.Sprintf("\tshow \"literal/nested-list\", %d, [[1, %d], [3]], [[\"x\"]]\n", k, k), fmt.Sprintf("\tshow(\"literal/nested-list\", %d, [][]int{{1, %d}, {3}}, [][]string{{\"x\"}})\n", k, k))
			case 4:
				add(fmt.Sprintf("\tshow \"literal/map\", %d, {\"k\": tr(%d), \"j\": 2}, {\"a\": 1, \"b\": \"x\"}, {1: \"one\"}\n", k, k), fmt.Sprintf("\tshow(\"literal/map\", %d, map[string]int{\"k\": tr(%d), \"j\": 2}, map[string]any{\"a\": 1, \"b\": \"x\"}, map[int]string{1: \"one\"})\n", k, k))
			default:
				add(fmt.Sprintf("\tshow \"literal/empty\", %d, [], {}\n", k), fmt.Sprintf("\tshow(\"literal/empty\", %d, []any{}, map[string]any{})\n", k))
			}
		case 1, 2: // append statement
			r.Cover("construct:append-statement")
			switch rnd.Intn(4) {
			case 0:
				add(fmt.Sprintf("\tout <- tr(%d)\n", k), fmt.Sprintf("\tout = append(out, tr(%d))\n", k))
			case 1:
				add(fmt.Sprintf("\tout <- tr(%d), %d, tr(3)\n", k, k+1), fmt.Sprintf("\tout = append(out, tr(%d), %d, tr(3))\n", k, k+1))
			case 2:
				add("\tout <- ys...\n", "\tout = append(out, ys...)\n")
			default:
				add(fmt.Sprintf("\tout <- src(%d, xs)...\n", k), fmt.Sprintf("\tout = append(out, src(%d, xs)...)\n", k))
			}
			both(fmt.Sprintf("\tshow(\"append-statement\", %d, out)\n", k))
		case 3, 4: // for-in over slices
			sx, sg := source(k)
			switch rnd.Intn(4) {
			case 0:
				r.Cover("construct:for-in")
				add(fmt.Sprintf("\tfor v <- %s {\n\t\tout = append(out, tr(v))\n\t}\n", sx), fmt.Sprintf("\tfor _, v := range %s {\n\t\tout = append(out, tr(v))\n\t}\n", sg))
			case 1:
				r.Cover("construct:for-in")
				add(fmt.Sprintf("\tfor i, v in %s {\n\t\tout = append(out, i*100+v)\n\t}\n", sx), fmt.Sprintf("\tfor i, v := range %s {\n\t\tout = append(out, i*100+v)\n\t}\n", sg))
			default:
				r.Cover("construct:for-in-filter")
				fx, fg := filter("v")
				add(fmt.Sprintf("\tfor v <- %s if %s {\n\t\tout = append(out, v)\n\t}\n", sx, fx), fmt.Sprintf("\tfor _, v := range %s {\n\t\tif %s {\n\t\t\tout = append(out, v)\n\t\t}\n\t}\n", sg, fg))
			}
			both(fmt.Sprintf("\tshow(\"for-in\", %d, out)\n", k))
		case 5: // for-in over string and map
			if rnd.Chance(1, 2) {
				r.Cover("construct:for-in-string")
				add(fmt.Sprintf("\tfor i, c <- \"hé%d\" {\n\t\tout = append(out, i, int(c))\n\t}\n", k), fmt.Sprintf("\tfor i, c := range \"hé%d\" {\n\t\tout = append(out, i, int(c))\n\t}\n", k))
			} else {
				r.Cover("construct:for-in-map")
				add("\t{\n\t\tsum := 0\n\t\tfor k, v <- m if v > 1 {\n\t\t\tsum += v*10 + len(k)\n\t\t}\n\t\tout = append(out, sum)\n\t}\n", "\t{\n\t\tsum := 0\n\t\tfor k, v := range m {\n\t\t\tif v > 1 {\n\t\t\t\tsum += v*10 + len(k)\n\t\t\t}\n\t\t}\n\t\tout = append(out, sum)\n\t}\n")
			}
			both(fmt.Sprintf("\tshow(\"for-in-other\", %d, out)\n", k))
		case 6, 7, 8: // list comprehension, one phrase
			r.Cover("construct:list-comprehension")
			sx, sg := source(k)
			e := elem("v")
			switch rnd.Intn(3) {
			case 0:
				add(fmt.Sprintf("\tshow \"list-comprehension\", %d, [%s for v <- %s]\n", k, e, sx), fmt.Sprintf("\tshow(\"list-comprehension\", %d, func() (ret []int) {\n\t\tfor _, v := range %s {\n\t\t\tret = append(ret, %s)\n\t\t}\n\t\treturn\n\t}())\n", k, sg, e))
			case 1:
				fx, fg := filter("v")
				add(fmt.Sprintf("\tshow \"list-comprehension/filter\", %d, [%s for v <- %s if %s]\n", k, e, sx, fx), fmt.Sprintf("\tshow(\"list-comprehension/filter\", %d, func() (ret []int) {\n\t\tfor _, v := range %s {\n\t\t\tif %s {\n\t\t\t\tret = append(ret, %s)\n\t\t\t}\n\t\t}\n\t\treturn\n\t}())\n", k, sg, fg, e))
			default:
				add(fmt.Sprintf("\tshow \"list-comprehension/index\", %d, [i*100+%s for i, v <- %s]\n", k, e, sx), fmt.Sprintf("\tshow(\"list-comprehension/index\", %d, func() (ret []int) {\n\t\tfor i, v := range %s {\n\t\t\tret = append(ret, i*100+%s)\n\t\t}\n\t\treturn\n\t}())\n", k, sg, e))
			}
		case 9, 10: // multi-phrase comprehension: the last phrase is the outermost loop
			r.Cover("construct:multi-phrase-comprehension")
			ax, ag := source(k*10 + 1)
			bx, bg := source(k*10 + 2)
			e := fw.Pick(rnd, []string{"a*10+b", "tr(a)*tr(b)", "tr(a*10+b)"})
			if rnd.Chance(1, 3) {
				cx, cg := source(k*10 + 3)
				add(fmt.Sprintf("\tshow \"multi-phrase/3\", %d, [%s+c for a <- %s for b <- %s for c <- %s]\n", k, e, ax, bx, cx),
					fmt.Sprintf("\tshow(\"multi-phrase/3\", %d, func() (ret []int) {\n\t\tfor _, c := range %s {\n\t\t\tfor _, b := range %s {\n\t\t\t\tfor _, a := range %s {\n\t\t\t\t\tret = append(ret, %s+c)\n\t\t\t\t}\n\t\t\t}\n\t\t}\n\t\treturn\n\t}())\n", k, cg, bg, ag, e))
			} else if rnd.Chance(1, 2) {
				fax, fag := filter("a")
				fbx, fbg := filter("b")
				add(fmt.Sprintf("\tshow \"multi-phrase/2-filters\", %d, [%s for a <- %s if %s for b <- %s if %s]\n", k, e, ax, fax, bx, fbx),
					fmt.Sprintf("\tshow(\"multi-phrase/2-filters\", %d, func() (ret []int) {\n\t\tfor _, b := range %s {\n\t\t\tif %s {\n\t\t\t\tfor _, a := range %s {\n\t\t\t\t\tif %s {\n\t\t\t\t\t\tret = append(ret, %s)\n\t\t\t\t\t}\n\t\t\t\t}\n\t\t\t}\n\t\t}\n\t\treturn\n\t}())\n", k, bg, fbg, ag, fag, e))
			} else {
				add(fmt.Sprintf("\tshow \"multi-phrase/2\", %d, [%s for a <- %s for b <- %s]\n", k, e, ax, bx),
					fmt.Sprintf("\tshow(\"multi-phrase/2\", %d, func() (ret []int) {\n\t\tfor _, b := range %s {\n\t\t\tfor _, a := range %s {\n\t\t\t\tret = append(ret, %s)\n\t\t\t}\n\t\t}\n\t\treturn\n\t}())\n", k, bg, ag, e))
			}
		case 11: // nested comprehension and range source
			r.Cover("construct:list-comprehension")
			if rnd.Chance(1, 2) {
				add(fmt.Sprintf("\tshow \"nested-comprehension\", %d, [[tr(a)*b for a <- xs] for b <- ys]\n", k),
					fmt.Sprintf("\tshow(\"nested-comprehension\", %d, func() (ret [][]int) {\n\t\tfor _, b := range ys {\n\t\t\tret = append(ret, func() (ret []int) {\n\t\t\t\tfor _, a := range xs {\n\t\t\t\t\tret = append(ret, tr(a)*b)\n\t\t\t\t}\n\t\t\t\treturn\n\t\t\t}())\n\t\t}\n\t\treturn\n\t}())\n", k))
			} else {
				lo, hi, st := rnd.Range(0, 3), rnd.Range(3, 9), rnd.Range(1, 3)
				add(fmt.Sprintf("\tshow \"comprehension-over-range\", %d, [tr(v) for v <- %d:%d:%d]\n", k, lo, hi, st),
					fmt.Sprintf("\tshow(\"comprehension-over-range\", %d, func() (ret []int) {\n\t\tfor v := %d; v < %d; v += %d {\n\t\t\tret = append(ret, tr(v))\n\t\t}\n\t\treturn\n\t}())\n", k, lo, hi, st))
			}
		case 12, 13: // map comprehension
			r.Cover("construct:map-comprehension")
			sx, sg := source(k)
			switch rnd.Intn(3) {
			case 0:
				add(fmt.Sprintf("\tshow \"map-comprehension\", %d, {v: tr(v)*2 for v <- %s}\n", k, sx), fmt.Sprintf("\tshow(\"map-comprehension\", %d, func() map[int]int {\n\t\tret := map[int]int{}\n\t\tfor _, v := range %s {\n\t\t\tret[v] = tr(v) * 2\n\t\t}\n\t\treturn ret\n\t}())\n", k, sg))
			case 1:
				fx, fg := filter("v")
				add(fmt.Sprintf("\tshow \"map-comprehension/index-filter\", %d, {i: v for i, v <- %s if %s}\n", k, sx, fx), fmt.Sprintf("\tshow(\"map-comprehension/index-filter\", %d, func() map[int]int {\n\t\tret := map[int]int{}\n\t\tfor i, v := range %s {\n\t\t\tif %s {\n\t\t\t\tret[i] = v\n\t\t\t}\n\t\t}\n\t\treturn ret\n\t}())\n", k, sg, fg))
			default:
				ex := rnd.Range(1, 3)
				add(fmt.Sprintf("\tshow \"map-comprehension/over-map\", %d, {v: k for k, v <- m if v != %d}\n", k, ex), fmt.Sprintf("\tshow(\"map-comprehension/over-map\", %d, func() map[int]string {\n\t\tret := map[int]string{}\n\t\tfor k, v := range m {\n\t\t\tif v != %d {\n\t\t\t\tret[v] = k\n\t\t\t}\n\t\t}\n\t\treturn ret\n\t}())\n", k, ex))
			}
		case 14, 15: // select comprehension
			r.Cover("construct:select-comprehension")
			sx, sg := source(k)
			fx, fg := filter("v")
			e := elem("v")
			if rnd.Chance(1, 2) {
				add(fmt.Sprintf("\t{\n\t\tv, ok := {%s for v <- %s if %s}\n\t\tshow \"select-comprehension/ok\", %d, v, ok\n\t}\n", e, sx, fx, k),
					fmt.Sprintf("\t{\n\t\tv, ok := func() (int, bool) {\n\t\t\tfor _, v := range %s {\n\t\t\t\tif %s {\n\t\t\t\t\treturn %s, true\n\t\t\t\t}\n\t\t\t}\n\t\t\treturn 0, false\n\t\t}()\n\t\tshow(\"select-comprehension/ok\", %d, v, ok)\n\t}\n", sg, fg, e, k))
			} else {
				add(fmt.Sprintf("\tshow \"select-comprehension\", %d, {%s for v <- %s if %s}\n", k, e, sx, fx),
					fmt.Sprintf("\tshow(\"select-comprehension\", %d, func() int {\n\t\tfor _, v := range %s {\n\t\t\tif %s {\n\t\t\t\treturn %s\n\t\t\t}\n\t\t}\n\t\treturn 0\n\t}())\n", k, sg, fg, e))
			}
		case 16: // existence comprehension
			r.Cover("construct:exists-comprehension")
			sx, sg := source(k)
			fx, fg := filter("v")
			add(fmt.Sprintf("\tshow \"exists-comprehension\", %d, {for v <- %s if %s}\n", k, sx, fx),
				fmt.Sprintf("\tshow(\"exists-comprehension\", %d, func() bool {\n\t\tfor _, v := range %s {\n\t\t\tif %s {\n\t\t\t\treturn true\n\t\t\t}\n\t\t}\n\t\treturn false\n\t}())\n", k, sg, fg))
		default: // command-style calls
			r.Cover("construct:command-call")
			switch rnd.Intn(4) {
			case 0:
				add(fmt.Sprintf("\tshow \"command/function\", %d, tr(1), \"s\", tr(2)\n", k), fmt.Sprintf("\tshow(\"command/function\", %d, tr(1), \"s\", tr(2))\n", k))
			case 1:
				add(fmt.Sprintf("\tb0.put %d, tr(%d), 2\n", k, k), fmt.Sprintf("\tb0.put(%d, tr(%d), 2)\n", k, k))
			case 2:
				add(fmt.Sprintf("\tb0.put %d, src(%d, ys)...\n", k, k), fmt.Sprintf("\tb0.put(%d, src(%d, ys)...)\n", k, k))
			default:
				add(fmt.Sprintf("\tapply %d, v => v*tr(3), %d\n", k, k), fmt.Sprintf("\tapply(%d, func(v int) int { return v * tr(3) }, %d)\n", k, k))
			}
		}
	}
	xsrc := "import \"fmt\"\n" + c02Common + "\nfunc main() {\n" + x.String() + "}\n"
	gsrc := "package main\n\nimport \"fmt\"\n" + c02Common + "\nfunc main() {\n" + g.String() + "}\n"
	return pairBuild{
		Ref:  map[string]string{"main.go": gsrc},
		XGo:  map[string]string{"main.xgo": xsrc},
		Info: map[string]string{"linetags": "1"},
	}
}

func (p *c02) PostRun(env *fw.Env, d *fw.Driver) {
	pairPostRun(env, d, p.Id, func(m progMeta, what string) string {
		return strings.Replace(what, "run:stdout-differs:", "sugar:", 1)
	})
}
