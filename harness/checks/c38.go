package checks

import (
	"bytes"
	"context"
	"encoding/json"
	"errors"
	"fmt"
	"io"
	"reflect"
	"strconv"
	"strings"

	"github.com/goplus/xgo/x/jsonrpc2"

	"verif/fw"
)

// C38 — JSON-RPC framing round-trips any message stream; hostile streams yield errors, never panics or over-reads.
type c38 struct{ Base }

func init() { fw.Register(&c38{Base: Base{Id: "C38", Lvl: "exploration"}}) }

func (p *c38) Setup(env *fw.Env) error {
	p.Env = env
	p.N = env.Pick(30000, 1200000)
	p.RuleS = "(a) random sequences of 1..6 messages — calls with int64 ids (0, negatives, ±2^53 neighbourhood, MaxInt64) and string ids (incl. \"\"), notifications, responses with result / wire error (with data) / wrapped wire error / plain error / neither — with random JSON params/results (nested objects, arrays, unicode and HTML-sensitive strings, big numbers), written with HeaderFramer().Writer and read back through a reader that delivers 1..n bytes per Read; (b) hostile streams: one frame of a valid stream is damaged (header case/spacing, extra/duplicate headers, missing/zero/negative/huge/non-numeric/overflowing Content-Length, truncated body, garbage JSON of the declared length, a valid object followed by trailing bytes inside the declared length, Content-Length overstated by the size of the next frame, wrong version, id of wrong type, shorter/longer declared length) and followed by a well-formed frame. (c) relay: 1..4 hand-framed messages (calls, notifications, results, error responses with and without data) are read from the wire and written again; each written body must be the same JSON value. Oracle: same messages in order with per-message byte totals; no panic; when the damaged frame's header is well-formed the next Read returns the following frame intact. Non-trivial = >=2 messages or a hostile frame; distinct by stream bytes."
	p.Assume = []string{"params/results are compared as JSON values (json.Marshal legitimately compacts and HTML-escapes raw messages)", "methods are non-empty valid UTF-8; top-level params/results are never the JSON literal null"}
	p.Floor = map[string]int{"#evaluations": p.N / 2, "#nontrivial": 5000, "relay:messages-compared": 3000, "relay:error-with-data": 500, "msg:call-int": 2000, "msg:call-string": 1000, "msg:notification": 1000, "msg:response-result": 1000, "msg:response-wire-error": 500, "msg:response-wrapped-error": 300, "msg:response-plain-error": 300, "msg:response-empty": 200,
		"hostile:error-returned": 2000, "hostile:next-frame-intact": 1000, "hostile:message-returned": 100, "chunked-reader": 5000}
	return nil
}

func (p *c38) Case(i int) fw.Case {
	if i%3 == 2 {
		return fw.Case{Kind: "hostile"}
	}
	return fw.Case{Kind: "roundtrip"}
}

type c38msg struct {
	kind   string // call notif resp
	id     jsonrpc2.ID
	method string
	params any
	result any
	errK   string // "", wire, wrapped, plain
	code   int64
	emsg   string
	edata  any
}

var c38Ints = []int64{0, 1, -1, 42, 1 << 31, -(1 << 31), 1<<53 - 1, 1 << 53, 1<<53 + 1, -(1<<53 + 1), 1<<62 + 12345, 1<<63 - 1, -1 << 63, 1e15 + 7}

func c38Value(r *fw.Rand, depth int) any {
	switch k := r.Intn(10); {
	case k < 2 && depth < 3:
		m := map[string]any{}
		for n := r.Intn(4); n > 0; n-- {
			m[fw.Pick(r, []string{"a", "b", "<tag>", "k&", "é", "", "jsonrpc", "id", "method"})] = c38Value(r, depth+1)
		}
		return m
	case k < 4 && depth < 3:
		var a []any
		for n := r.Intn(4); n > 0; n-- {
			a = append(a, c38Value(r, depth+1))
		}
		if a == nil {
			a = []any{}
		}
		return a
	case k < 6:
		return fw.Pick(r, []string{"", "x", "<script>&", " line", "é世\U0001F600", "quote\"back\\slash", "\x00\x1f"})
	case k < 8:
		return float64(fw.Pick(r, []int64{0, 1, -7, 1 << 40, 123456789}))
	case k < 9:
		return r.Bool()
	default:
		if depth == 0 {
			return "top"
		}
		return nil
	}
}

func c38Gen(r *fw.Rand) c38msg {
	var m c38msg
	id := func() jsonrpc2.ID {
		if r.Chance(1, 3) {
			return jsonrpc2.StringID(fw.Pick(r, []string{"", "a", "7", "id-é", "<&>", "null"}))
		}
		if r.Bool() {
			return jsonrpc2.Int64ID(int64(r.Intn(1000)))
		}
		return jsonrpc2.Int64ID(fw.Pick(r, c38Ints))
	}
	switch r.Intn(4) {
	case 0, 1:
		m.kind, m.id, m.method = "call", id(), fw.Pick(r, []string{"m", "textDocument/didOpen", "$/cancel", "é", "a b", "<x>"})
		if r.Chance(3, 4) {
			m.params = c38Value(r, 0)
		}
	case 2:
		m.kind, m.method = "notif", fw.Pick(r, []string{"n", "exit", "$/progress"})
		if r.Chance(3, 4) {
			m.params = c38Value(r, 0)
		}
	default:
		m.kind, m.id = "resp", id()
		switch r.Intn(6) {
		case 0, 1, 2:
			m.result = c38Value(r, 0)
		case 3:
			m.errK, m.code, m.emsg = "wire", fw.Pick(r, []int64{-32700, -32600, 0, 1, 7, -1}), fw.Pick(r, []string{"boom", "", "é<&>"})
		case 4:
			m.errK, m.code, m.emsg = "wrapped", fw.Pick(r, []int64{-32601, 5}), "outer: inner"
		case 5:
			if r.Bool() {
				m.errK, m.emsg = "plain", "plain failure"
			}
		}
	}
	return m
}

func (m c38msg) build() (jsonrpc2.Message, error) {
	switch m.kind {
	case "call":
		return jsonrpc2.NewCall(m.id, m.method, m.params)
	case "notif":
		return jsonrpc2.NewNotification(m.method, m.params)
	}
	var e error
	switch m.errK {
	case "wire":
		e = jsonrpc2.NewError(m.code, m.emsg)
	case "wrapped":
		e = fmt.Errorf("outer: %w", jsonrpc2.NewError(m.code, "inner"))
	case "plain":
		e = errors.New(m.emsg)
	}
	return jsonrpc2.NewResponse(m.id, m.result, e)
}

func jsonEq(raw json.RawMessage, v any) bool {
	if v == nil {
		return len(raw) == 0
	}
	if len(raw) == 0 {
		return false
	}
	var a, b any
	if json.Unmarshal(raw, &a) != nil {
		return false
	}
	bs, _ := json.Marshal(v)
	if json.Unmarshal(bs, &b) != nil {
		return false
	}
	return reflect.DeepEqual(a, b)
}

type chunkReader struct {
	b []byte
	r *fw.Rand
	n int // max chunk
}

func (c *chunkReader) Read(p []byte) (int, error) {
	if len(c.b) == 0 {
		return 0, io.EOF
	}
	k := c.r.Range(1, c.n)
	if k > len(p) {
		k = len(p)
	}
	if k > len(c.b) {
		k = len(c.b)
	}
	copy(p, c.b[:k])
	c.b = c.b[k:]
	return k, nil
}

func idString(id jsonrpc2.ID) string { return fmt.Sprintf("%T:%v", id.Raw(), id.Raw()) }

func (p *c38) compare(r *fw.Rec, k int, want c38msg, got jsonrpc2.Message) bool {
	switch want.kind {
	case "call", "notif":
		req, ok := got.(*jsonrpc2.Request)
		if !ok {
			r.Fail("frame:kind-differs", "message #%d: wrote a %s, read back %T", k, want.kind, got)
			return false
		}
		if req.Method != want.method {
			r.Fail("frame:method-differs", "message #%d: method %q read back as %q", k, want.method, req.Method)
			return false
		}
		if want.kind == "notif" {
			r.Cover("msg:notification")
			if req.IsCall() {
				r.Fail("frame:notification-became-call", "message #%d: notification read back with id %v", k, req.ID.Raw())
				return false
			}
		} else if idString(req.ID) != idString(want.id) {
			p.idFail(r, k, want.id, req.ID)
			return false
		} else if _, isInt := want.id.Raw().(int64); isInt {
			r.Cover("msg:call-int")
		} else {
			r.Cover("msg:call-string")
		}
		if !jsonEq(req.Params, want.params) {
			r.Fail("frame:params-differ", "message #%d: params %v read back as %s", k, want.params, req.Params)
			return false
		}
	default:
		resp, ok := got.(*jsonrpc2.Response)
		if !ok {
			r.Fail("frame:kind-differs", "message #%d: wrote a response, read back %T", k, got)
			return false
		}
		if idString(resp.ID) != idString(want.id) {
			p.idFail(r, k, want.id, resp.ID)
			return false
		}
		switch want.errK {
		case "":
			if resp.Error != nil {
				r.Fail("frame:error-appeared", "message #%d: response without error read back with error %v", k, resp.Error)
				return false
			}
			if want.result == nil {
				r.Cover("msg:response-empty")
			} else {
				r.Cover("msg:response-result")
			}
			if !jsonEq(resp.Result, want.result) {
				r.Fail("frame:result-differs", "message #%d: result %v read back as %s", k, want.result, resp.Result)
				return false
			}
		default:
			if resp.Error == nil {
				r.Fail("frame:error-lost", "message #%d: response error (%s) lost", k, want.errK)
				return false
			}
			wantMsg := want.emsg
			wantCode := want.code
			if want.errK == "plain" {
				wantCode = 0
			}
			if resp.Error.Error() != wantMsg {
				r.Fail("frame:error-message-differs", "message #%d: error message %q read back as %q", k, wantMsg, resp.Error.Error())
				return false
			}
			if !errors.Is(resp.Error, jsonrpc2.NewError(wantCode, "")) {
				r.Fail("frame:error-code-differs", "message #%d (%s): error code %d not preserved (%#v)", k, want.errK, wantCode, resp.Error)
				return false
			}
			r.Cover("msg:response-" + map[string]string{"wire": "wire", "wrapped": "wrapped", "plain": "plain"}[want.errK] + "-error")
		}
	}
	return true
}

func (p *c38) idFail(r *fw.Rec, k int, want, got jsonrpc2.ID) {
	site := "frame:id-differs"
	if v, ok := want.Raw().(int64); ok && (v > 1<<53 || v < -(1<<53)) {
		if _, gotInt := got.Raw().(int64); gotInt {
			site = "frame:id-differs:int64-magnitude-above-2^53"
		}
	}
	r.Fail(site, "message #%d: id %s read back as %s", k, idString(want), idString(got))
}

func (p *c38) Run(c fw.Case, r *fw.Rec) {
	rnd := p.rnd(c.Idx)
	n := rnd.Range(1, 6)
	msgs := make([]c38msg, n)
	var stream bytes.Buffer
	var sizes []int64
	w := jsonrpc2.HeaderFramer().Writer(&stream)
	ctx := context.Background()
	frameStart := []int{}
	for k := range msgs {
		msgs[k] = c38Gen(rnd)
		m, err := msgs[k].build()
		if err != nil {
			r.Skip("unmarshalable-value")
			return
		}
		frameStart = append(frameStart, stream.Len())
		var nn int64
		if fw.Guard(r, "HeaderFramer.Write", func() { nn, err = w.Write(ctx, m) }) {
			return
		}
		if err != nil {
			r.Fail("frame:write-error", "Write failed: %v", err)
			return
		}
		if int(nn) != stream.Len()-frameStart[k] {
			r.Fail("frame:write-total", "Write reported %d bytes, wrote %d", nn, stream.Len()-frameStart[k])
			return
		}
		sizes = append(sizes, nn)
	}
	data := stream.Bytes()
	if c.Kind == "roundtrip" {
		maxChunk := fw.Pick(rnd, []int{1, 2, 7, 64, 4096})
		r.Cover("chunked-reader")
		rd := jsonrpc2.HeaderFramer().Reader(&chunkReader{b: append([]byte(nil), data...), r: rnd, n: maxChunk})
		for k := range msgs {
			var got jsonrpc2.Message
			var tot int64
			var err error
			if fw.Guard(r, "HeaderFramer.Read", func() { got, tot, err = rd.Read(ctx) }) {
				return
			}
			if err != nil {
				r.Fail("frame:read-error-on-own-output", "reading message #%d of the framer's own output failed: %v", k, err)
				return
			}
			if tot != sizes[k] {
				r.Fail("frame:read-total", "message #%d: Read reported %d bytes, frame has %d", k, tot, sizes[k])
				return
			}
			if !p.compare(r, k, msgs[k], got) {
				return
			}
		}
		var err error
		if fw.Guard(r, "HeaderFramer.Read", func() { _, _, err = rd.Read(ctx) }) {
			return
		}
		if err != io.EOF {
			r.Fail("frame:no-EOF-at-end", "Read after the last message returned %v, want io.EOF", err)
		}
		if n >= 2 {
			r.NonTrivial()
			r.DistinctKey(string(data))
			if n == 3 {
				r.Sample(fw.Quote(data, 300))
			}
		}
		p.relay(rnd, r)
		return
	}
	// hostile: damage frame k, keep the others
	k := rnd.Intn(n)
	end := len(data)
	if k+1 < n {
		end = frameStart[k+1]
	}
	frame := data[frameStart[k]:end]
	hdrEnd := bytes.Index(frame, []byte("\r\n\r\n")) + 4
	body := frame[hdrEnd:]
	var bad []byte
	headerOK := true // header well-formed with a Content-Length equal to the bytes that follow as "body"
	mayReturnMsg := false
	mk := func(hdr string, b []byte) []byte { return append([]byte(hdr), b...) }
	kind := rnd.Intn(19)
	switch kind {
	case 0:
		bad = mk(fmt.Sprintf("content-length: %d\r\n\r\n", len(body)), body) // header names are case-sensitive here: missing Content-Length
		headerOK = false
	case 1:
		bad = mk(fmt.Sprintf("Content-Length:%d\r\nContent-Type: application/vscode-jsonrpc; charset=utf-8\r\n\r\n", len(body)), body)
		mayReturnMsg = true
	case 2:
		bad = mk(fmt.Sprintf("  Content-Length :  %d \r\n\r\n", len(body)), body)
		headerOK = false // name with trailing blank is not Content-Length
	case 3:
		bad = mk("\r\n", body)
		headerOK = false
	case 4:
		bad = mk(fmt.Sprintf("Content-Length: %s\r\n\r\n", fw.Pick(rnd, []string{"0", "-5", "abc", "", "1e3", "99999999999", "2147483648", "0x10", "１２"})), body)
		headerOK = false
	case 5:
		bad = mk(fmt.Sprintf("Content-Length: %d\r\n\r\n", len(body)), body[:len(body)/2]) // truncated body: following frame is eaten
		headerOK = false
	case 6:
		g := bytes.Repeat([]byte("{"), len(body))
		bad = mk(fmt.Sprintf("Content-Length: %d\r\n\r\n", len(g)), g)
	case 7:
		b2 := bytes.Replace(body, []byte(`"jsonrpc":"2.0"`), []byte(`"jsonrpc":"1.0"`), 1)
		bad = mk(fmt.Sprintf("Content-Length: %d\r\n\r\n", len(b2)), b2)
	case 8:
		b2 := []byte(`{"jsonrpc":"2.0","id":` + fw.Pick(rnd, []string{`[1]`, `{"a":1}`, `true`, `1.5`, `1e400`, `null`}) + `,"method":"m"}`)
		bad = mk(fmt.Sprintf("Content-Length: %d\r\n\r\n", len(b2)), b2)
		mayReturnMsg = true
	case 9:
		b2 := []byte(fw.Pick(rnd, []string{`[]`, `null`, `"x"`, `{"jsonrpc":"2.0"}`, `{"jsonrpc":"2.0","error":{"code":"x"}}`, `{"jsonrpc":"2.0","id":1,"error":{"code":1.5,"message":3}}`, `{"jsonrpc":"2.0","method":7}`, "\xff\xfe{}"}))
		bad = mk(fmt.Sprintf("Content-Length: %d\r\n\r\n", len(b2)), b2)
	case 10:
		bad = mk(fmt.Sprintf("Content-Length: %d\n\n", len(body)), body) // bare LF line ends
		mayReturnMsg = true
	case 11:
		bad = mk(fmt.Sprintf("Content-Length: 5\r\nContent-Length: %d\r\n\r\n", len(body)), body) // last one wins
		mayReturnMsg = true
	case 12:
		bad = mk("garbage without colon\r\n\r\n", body)
		headerOK = false
	case 13:
		bad = mk(fmt.Sprintf("Content-Length: +%d\r\n\r\n", len(body)), body)
		mayReturnMsg = true
	case 14:
		// declared length shorter than the body: the rest of the body is read as the next header
		bad = mk(fmt.Sprintf("Content-Length: %d\r\n\r\n", len(body)-1), body)
		headerOK = false
	case 16:
		// a valid object followed by trailing bytes inside the declared length: malformed, must be rejected
		b2 := append(append([]byte(nil), body...), fw.Pick(rnd, []string{" x", "{}", "]", ",", " 1", "\n{\"jsonrpc\":\"2.0\",\"method\":\"m\"}", "}"})...)
		bad = mk(fmt.Sprintf("Content-Length: %d\r\n\r\n", len(b2)), b2)
	case 17:
		// Content-Length overstated by exactly the size of the following frame: the next frame becomes trailing data
		rest := data[end:]
		nextLen := len(rest)
		if k+2 < n {
			nextLen = frameStart[k+2] - end
		}
		if nextLen == 0 {
			bad = mk(fmt.Sprintf("Content-Length: %d\r\n\r\n", len(body)+2), append(append([]byte(nil), body...), '{', '}'))
		} else {
			bad = mk(fmt.Sprintf("Content-Length: %d\r\n\r\n", len(body)+nextLen), body)
			headerOK = false // the following frame is consumed as body: positions after it are not comparable
		}
	default:
		bad = mk(fmt.Sprintf("Content-Length: %d\r\n\r\n", len(body)), body)[:rnd.Intn(hdrEnd+1)] // truncated inside the header
		headerOK = false
		kind = 15
	}
	var hs bytes.Buffer
	hs.Write(data[:frameStart[k]])
	hs.Write(bad)
	if kind != 5 && kind != 15 { // a truncation is the end of the stream
		hs.Write(data[end:])
		// a sentinel frame at the very end
		sentinel, _ := jsonrpc2.NewNotification("sentinel", map[string]any{"n": c.Idx})
		jsonrpc2.HeaderFramer().Writer(&hs).Write(ctx, sentinel)
	}
	hostile := hs.Bytes()
	rd := jsonrpc2.HeaderFramer().Reader(&chunkReader{b: append([]byte(nil), hostile...), r: rnd, n: fw.Pick(rnd, []int{1, 3, 4096})})
	r.NonTrivial()
	r.DistinctKey(string(hostile))
	for j := 0; j < n; j++ {
		var got jsonrpc2.Message
		var err error
		if fw.Guard(r, "HeaderFramer.Read", func() { got, _, err = rd.Read(ctx) }) {
			return
		}
		switch {
		case j < k:
			if err != nil || !p.compare(r, j, msgs[j], got) {
				if err != nil {
					r.Fail("frame:read-error-before-damage", "message #%d before the damaged frame failed: %v", j, err)
				}
				return
			}
		case j == k:
			if err == nil {
				if !mayReturnMsg {
					r.Fail("frame:hostile-frame-accepted:"+strconv.Itoa(kind), "damaged frame (kind %d) %s was read without error as %#v", kind, fw.Quote(bad, 120), got)
					return
				}
				r.Cover("hostile:message-returned")
			} else {
				r.Cover("hostile:error-returned")
			}
			if !headerOK {
				r.Sample(map[string]any{"hostile_frame": fw.Quote(bad, 160), "error": fmt.Sprint(err)})
				return // stream position after a malformed header is undefined
			}
		default:
			if err != nil {
				r.Fail("frame:over-or-under-read:"+strconv.Itoa(kind), "after the damaged frame (kind %d, well-formed header) the following frame #%d could not be read: %v\ndamaged frame: %s", kind, j, err, fw.Quote(bad, 120))
				return
			}
			if !p.compare(r, j, msgs[j], got) {
				return
			}
			r.Cover("hostile:next-frame-intact")
		}
	}
	if headerOK {
		var got jsonrpc2.Message
		var err error
		if fw.Guard(r, "HeaderFramer.Read", func() { got, _, err = rd.Read(ctx) }) {
			return
		}
		req, ok := got.(*jsonrpc2.Request)
		if err != nil || !ok || req.Method != "sentinel" {
			r.Fail("frame:over-or-under-read:"+strconv.Itoa(kind), "sentinel frame after the damaged frame (kind %d) not read intact: msg=%#v err=%v", kind, got, err)
			return
		}
		r.Cover("hostile:next-frame-intact")
	}
	_ = strings.TrimSpace
}

// relay: messages that arrive from the wire (hand-framed bodies, so that they can carry what the constructors
// cannot build: error responses with data) are written again by the framer; the bodies it writes must be the same
// JSON values, message by message.
func (p *c38) relay(rnd *fw.Rand, r *fw.Rec) {
	ctx := context.Background()
	n := rnd.Range(1, 4)
	var bodies [][]byte
	var in bytes.Buffer
	for k := 0; k < n; k++ {
		obj := map[string]any{"jsonrpc": "2.0"}
		id := func() any {
			if rnd.Bool() {
				return fw.Pick(rnd, []string{"a", "id-é", "x7"})
			}
			return float64(rnd.Intn(1000))
		}
		val := func() any {
			for {
				if v := c38Value(rnd, 0); v != nil {
					return v
				}
			}
		}
		switch rnd.Intn(5) {
		case 0:
			obj["id"], obj["method"], obj["params"] = id(), "m", val()
			r.Cover("relay:call")
		case 1:
			obj["method"], obj["params"] = "n", val()
			r.Cover("relay:notification")
		case 2:
			obj["id"], obj["result"] = id(), val()
			r.Cover("relay:result")
		default:
			e := map[string]any{"code": float64(fw.Pick(rnd, []int64{-32700, -32000, 0, 1, 7})), "message": fw.Pick(rnd, []string{"boom", "", "overloaded"})}
			if rnd.Chance(2, 3) {
				e["data"] = val()
				r.Cover("relay:error-with-data")
			} else {
				r.Cover("relay:error-without-data")
			}
			obj["id"], obj["error"] = id(), e
		}
		body, err := json.Marshal(obj)
		if err != nil {
			r.Skip("unmarshalable-value")
			return
		}
		bodies = append(bodies, body)
		fmt.Fprintf(&in, "Content-Length: %d\r\n\r\n%s", len(body), body)
	}
	rd := jsonrpc2.HeaderFramer().Reader(bytes.NewReader(in.Bytes()))
	var out bytes.Buffer
	w := jsonrpc2.HeaderFramer().Writer(&out)
	for k := range bodies {
		var m jsonrpc2.Message
		var err error
		if fw.Guard(r, "HeaderFramer.Read", func() { m, _, err = rd.Read(ctx) }) {
			return
		}
		if err != nil {
			r.Fail("relay:read-error", "reading hand-framed message #%d (%s) failed: %v", k, bodies[k], err)
			return
		}
		start := out.Len()
		if fw.Guard(r, "HeaderFramer.Write", func() { _, err = w.Write(ctx, m) }) {
			return
		}
		if err != nil {
			r.Fail("relay:write-error", "writing message #%d (%s) again failed: %v", k, bodies[k], err)
			return
		}
		frame := out.Bytes()[start:]
		i := bytes.Index(frame, []byte("\r\n\r\n"))
		if i < 0 {
			r.Fail("relay:frame-without-header-end", "frame written for message #%d has no header end: %q", k, frame)
			return
		}
		var a, b any
		if json.Unmarshal(bodies[k], &a) != nil || json.Unmarshal(frame[i+4:], &b) != nil {
			r.Fail("relay:body-not-json", "message #%d: written body is not JSON: %q", k, frame[i+4:])
			return
		}
		if !reflect.DeepEqual(a, b) {
			site := "relay:message-changed"
			am, _ := a.(map[string]any)
			bm, _ := b.(map[string]any)
			for _, key := range []string{"id", "method", "params", "result", "error"} {
				if !reflect.DeepEqual(am[key], bm[key]) {
					site += ":" + key
					break
				}
			}
			r.Fail(site, "message #%d read from the wire and written again differs:\n  in : %s\n  out: %s", k, bodies[k], frame[i+4:])
			return
		}
		r.Cover("relay:messages-compared")
	}
}
