package checks

import (
	"bytes"
	"fmt"
	gotoken "go/token"
	"strings"
	"sync"

	tplast "github.com/goplus/xgo/tpl/ast"
	tplparser "github.com/goplus/xgo/tpl/parser"

	"verif/corpus"
	"verif/fw"
)

var (
	tplOnce sync.Once
	tplSrcs []string
)

// tplCorpus returns grammar texts found in the repository: tpl`…` domain literals of XGo files,
// tpl/parser testdata inputs and harvested test snippets that the TPL parser accepts.
func tplCorpus(env *fw.Env) []string {
	tplOnce.Do(func() {
		seen := map[string]bool{}
		add := func(s string) {
			if len(s) > 4 && !seen[s] {
				seen[s] = true
				tplSrcs = append(tplSrcs, s)
			}
		}
		for _, f := range corpus.XGo(env.Repo) {
			b := f.Src
			for {
				i := bytes.Index(b, []byte("tpl`"))
				if i < 0 {
					break
				}
				b = b[i+4:]
				j := bytes.IndexByte(b, '`')
				if j < 0 {
					break
				}
				add(string(b[:j]))
				b = b[j+1:]
			}
			if strings.HasPrefix(f.Path, "tpl/") {
				add(string(f.Src))
			}
		}
		for _, f := range corpus.TPLFiles(env.Repo) {
			add(string(f.Src))
		}
		for _, s := range corpus.Snippets(env.Repo) {
			if !strings.Contains(s, " = ") {
				continue
			}
			func() {
				defer func() { recover() }()
				fset := gotoken.NewFileSet()
				if f, err := tplparser.ParseFile(fset, "", s, nil); err == nil && f != nil && len(f.Decls) > 0 {
					add(s)
				}
			}()
		}
	})
	return tplSrcs
}

// tplShape renders a tpl/ast expression in the generator's canonical shape notation.
func tplShape(e tplast.Expr) string {
	switch e := e.(type) {
	case nil:
		return "<nil>"
	case *tplast.Ident:
		return e.Name
	case *tplast.BasicLit:
		return e.Value
	case *tplast.UnaryExpr:
		if e.X == nil {
			return "(" + e.Op.String() + "<nil>)"
		}
		return "(" + e.Op.String() + tplShape(e.X) + ")"
	case *tplast.BinaryExpr:
		return "(" + tplShape(e.X) + " " + e.Op.String() + " " + tplShape(e.Y) + ")"
	case *tplast.Sequence:
		var parts []string
		for _, k := range e.Items {
			parts = append(parts, tplShape(k))
		}
		return "{seq:" + strings.Join(parts, " ") + "}"
	case *tplast.Choice:
		var parts []string
		for _, k := range e.Options {
			parts = append(parts, tplShape(k))
		}
		return "{choice:" + strings.Join(parts, " | ") + "}"
	}
	return fmt.Sprintf("<%T>", e)
}

func tplPos(i int) gotoken.Pos { return gotoken.Pos(i) }
