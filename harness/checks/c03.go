package checks

import (
	"fmt"
	"strings"

	"verif/fw"
)

// C03 — error-wrapping operators !, ? and ?: behave as documented.
type c03 struct {
	Base
}

func init() { fw.Register(&c03{Base: Base{Id: "C03", Lvl: "exploration"}}) }

func (p *c03) Setup(env *fw.Env) error {
	p.Env = env
	xgocWarm(env)
	p.N = env.Pick(48, 1600)
	p.RuleS = "each case is an XGo program of 8 generated scenarios; a scenario applies one operator (!, ?, ?:) to a call of a function with 0..3 values + error (function, method, function value, auto-called identifier, command style), in one use position (expression statement, := , =, var, argument, forwarded arguments, operand, if-init, list element, return operand, inside a function literal), with the call set to fail or succeed; failing calls return junk values next to the error. A Go helper file in the same package records call counts and describes the recovered / returned error (errors.Is against the original, and the qiniu/x/errors.Frame: code text, file, line, function). Oracle (reference model computed by the harness): success yields exactly the call's values; `!` panics with an error that wraps the original and whose frame names the operand's source text, the file, the line the operand starts on and main.<enclosing function>; `?` returns from the enclosing function with zero values (also for named results already assigned) and the wrapped error; `?:d` yields d; the call counter is 1 in every scenario."
	p.Assume = []string{"`?:d` is generated for single-value calls only (the default is one expression)", "`g(f()?)` with a multi-value f (forwarded arguments) is a probe kind of its own"}
	p.Floor = map[string]int{"#evaluations": p.N * 9 / 10, "#nontrivial": p.N / 2, "programs-executed": p.N / 2, "stdout-lines-compared": p.N * 6, "op:!": p.N, "op:?": p.N, "op:?:": p.N / 2, "outcome:error": p.N * 2, "outcome:ok": p.N * 2}
	return nil
}

func (p *c03) Case(i int) fw.Case {
	if i%16 == 3 {
		return fw.Case{Kind: "question-in-range-source"}
	}
	if i%8 == 7 {
		return fw.Case{Kind: "forwarded-question-arguments"}
	}
	return fw.Case{Kind: "scenarios"}
}

const c03Helper = `package main

import (
	"errors"
	"fmt"

	xerrors "github.com/qiniu/x/errors"
)

type MyErr struct{ K int }

func (e *MyErr) Error() string { return fmt.Sprintf("myerr-%d", e.K) }

var Errs = map[int]*MyErr{}
var Calls = map[int]int{}

func mk(k int) error {
	e := &MyErr{k}
	Errs[k] = e
	return e
}

// Describe renders a recovered / returned value: whether it wraps the original error and the frame it carries.
func Describe(k int, v any) string {
	if v == nil {
		return "nil"
	}
	e, ok := v.(error)
	if !ok {
		return fmt.Sprintf("non-error %T", v)
	}
	s := fmt.Sprintf("wraps-original=%v", errors.Is(e, Errs[k]))
	var f *xerrors.Frame
	if errors.As(e, &f) {
		s += fmt.Sprintf(" frame{code=%q file=%q line=%d func=%q}", f.Code, f.File, f.Line, f.Func)
	} else {
		s += " no-frame"
	}
	return s
}

type T struct{ Tag string }

func Show(tag string, k int, vs ...any) {
	fmt.Printf("%s: %d values", tag, k)
	for _, v := range vs {
		fmt.Printf(" %#v", v)
	}
	fmt.Println()
}
`

const c03Prelude = `func zero(k int, fail bool) error {
	Calls[k]++
	if fail {
		return mk(k)
	}
	return nil
}

func one(k int, fail bool) (int, error) {
	Calls[k]++
	if fail {
		return -1, mk(k)
	}
	return k*10 + 1, nil
}

func two(k int, fail bool) (int, string, error) {
	Calls[k]++
	if fail {
		return -1, "junk", mk(k)
	}
	return k*10 + 2, "ok", nil
}

func three(k int, fail bool) (int, string, bool, error) {
	Calls[k]++
	if fail {
		return -1, "junk", true, mk(k)
	}
	return k*10 + 3, "ok", true, nil
}

type obj struct{ bias int }

func (o *obj) one(k int, fail bool) (int, error) {
	v, err := one(k, fail)
	return v + o.bias, err
}

func id1(x int) int { return x }

func pair(x int, s string) string { return s + "/" + string(rune('0'+x%10)) }

`

type srcB struct {
	b    strings.Builder
	line int
}

func (s *srcB) add(text string) {
	s.b.WriteString(text)
	s.line += strings.Count(text, "\n")
}

// cur is the 1-based number of the line about to be written.
func (s *srcB) cur() int { return s.line + 1 }

func (p *c03) Run(c fw.Case, r *fw.Rec) {
	pairWorker(p.Env, p.Id, c, r, p.build(c, r))
}

// build generates the experiment of one case.
func (p *c03) build(c fw.Case, r *fw.Rec) pairBuild {
	rnd := p.rnd(c.Idx)
	if c.Kind == "question-in-range-source" {
		// `for v <- f()?`: the in-place expansion of ? is emitted inside the loop body (probe, known finding)
		fail := rnd.Chance(1, 2)
		form := fw.Pick(rnd, []string{"for v <- many(1, %v)? {", "for _, v := range many(1, %v)? {"})
		prog := c03Prelude + "func many(k int, fail bool) ([]int, error) {\n\tCalls[k]++\n\tif fail {\n\t\treturn nil, mk(k)\n\t}\n\treturn [k, k + 1], nil\n}\n\nfunc s1() error {\n\t" + fmt.Sprintf(form, fail) + "\n\t\tShow(\"range-source\", 1, v)\n\t}\n\treturn nil\n}\n\nfunc main() {\n\techo \"range-source:\", 1, \"returned\", Describe(1, s1()), \"calls\", Calls[1]\n}\n"
		exp := "range-source: 1 values 1\nrange-source: 1 values 2\nrange-source: 1 returned nil calls 1\n"
		if fail {
			exp = fmt.Sprintf("range-source: 1 returned wraps-original=true frame{code=%q file=%q line=%d func=%q} calls 1\n", fmt.Sprintf("many(1, %v)", fail), "/p/main.xgo", strings.Count(c03Prelude, "\n")+10, "main.s1")
		}
		return pairBuild{XGo: map[string]string{"main.xgo": prog, "helper.go": c03Helper}, Expect: &exp, Info: map[string]string{"linetags": "1", "probe": "question-operator-in-range-source"}}
	}
	src := &srcB{}
	var want strings.Builder
	src.add(c03Prelude)
	var mainBody strings.Builder
	info := map[string]string{"linetags": "1"}
	nScen := 8
	if c.Kind == "forwarded-question-arguments" {
		nScen = 2
		info["probe"] = "question-operator-call-forwarded-as-arguments"
	}
	for k := 1; k <= nScen; k++ {
		fail := rnd.Chance(1, 2)
		op := fw.Pick(rnd, []string{"!", "!", "?", "?", "?:"})
		arity := fw.Pick(rnd, []int{0, 1, 1, 1, 2, 3})
		if c.Kind == "forwarded-question-arguments" {
			op, arity = "?", 2
		}
		if op == "?:" {
			arity = 1
		}
		r.Cover("op:" + op)
		r.Cover(fmt.Sprintf("callee-values:%d", arity))
		if fail {
			r.Cover("outcome:error")
		} else {
			r.Cover("outcome:ok")
		}
		fn := fmt.Sprintf("s%d", k)
		okv := []string{}
		switch arity {
		case 1:
			okv = []string{fmt.Sprint(k*10 + 1)}
		case 2:
			okv = []string{fmt.Sprint(k*10 + 2), `"ok"`}
		case 3:
			okv = []string{fmt.Sprint(k*10 + 3), `"ok"`, "true"}
		}
		callee := []string{"zero", "one", "two", "three"}[arity]
		args := fmt.Sprintf("(%d, %v)", k, fail)
		call := callee + args
		code := call // what the frame's code text must be
		pre := ""
		form := "function"
		if arity == 1 {
			switch rnd.Intn(6) {
			case 0:
				form = "method"
				pre = "\to := &obj{bias: 0}\n"
				call = "o.one" + args
				code = call
			case 1:
				form = "function-value"
				pre = "\tfv := one\n"
				call = "fv" + args
				code = call
			case 2:
				form = "auto-called-identifier"
				pre = fmt.Sprintf("\tget := func() (int, error) {\n\t\treturn one(%d, %v)\n\t}\n", k, fail)
				call = "get"
				code = "get"
			}
		} else if arity == 0 && rnd.Chance(1, 3) && op != "?:" {
			form = "command-style"
		}
		multiLine := form == "function" && arity >= 1 && rnd.Chance(1, 3)
		if multiLine {
			// the operand spans several lines; the frame names the line it starts on and its one-line code text
			form = "multi-line-call"
			call = fmt.Sprintf("%s(\n\t\t%d,\n\t\t%v,\n\t)", callee, k, fail)
			code = fmt.Sprintf("%s(\n\t%d,\n\t%v,\n)", callee, k, fail) // the printer re-indents the operand
		}
		r.Cover("callee-form:" + form)
		tag := fmt.Sprintf("%s/%d-values/%s", map[string]string{"!": "bang", "?": "question", "?:": "default"}[op], arity, form)
		// ---- enclosing function ----
		results, succRet, zeroRet := "", "", ""
		if op == "?" {
			switch rnd.Intn(5) {
			case 0:
				results, succRet, zeroRet = " error", "nil", ""
			case 1:
				results, succRet, zeroRet = " (int, error)", "7, nil", " 0"
			case 2:
				results, succRet, zeroRet = " (n int, s string, err error)", "7, \"done\", nil", ` 0 ""`
				pre = "\tn, s = 5, \"pre\"\n" + pre
			case 3:
				results, succRet, zeroRet = " (*T, []int, error)", "&T{\"t\"}, []int{1}, nil", " (*main.T)(nil) []int(nil)"
			default:
				results, succRet, zeroRet = " (T, bool, error)", "T{\"t\"}, true, nil", ` main.T{Tag:""} false`
			}
			r.Cover("enclosing-results:" + strings.TrimSpace(results))
		}
		src.add(fmt.Sprintf("func %s()%s {\n", fn, results))
		if op == "!" {
			src.add(fmt.Sprintf("\tdefer func() {\n\t\techo \"%s:\", %d, \"recovered\", Describe(%d, recover()), \"calls\", Calls[%d]\n\t}()\n", tag, k, k, k))
		}
		src.add(pre)
		// ---- use site ----
		x := call + op
		if form == "command-style" {
			x = callee + op + fmt.Sprintf(" %d, %v", k, fail)
		}
		dflt := ""
		if op == "?:" {
			dflt = fmt.Sprint(900 + k)
			x = call + "?:" + dflt
		}
		var shown []string // values the scenario prints on success
		pos := ""
		frameLine := 0
		site := func(text string, lineOffset int) {
			frameLine = src.cur() + lineOffset
			src.add(text)
		}
		show := func(vals string) string { return fmt.Sprintf("\tShow(%q, %d, %s)\n", tag, k, vals) }
		switch {
		case arity == 0:
			pos = "statement"
			site("\t"+x+"\n", 0)
			src.add(fmt.Sprintf("\tShow(%q, %d)\n", tag, k))
		case arity == 1:
			v := okv[0]
			if op == "?:" && fail {
				v = dflt
			}
			inc := func(s string) string {
				var n int
				fmt.Sscan(s, &n)
				return fmt.Sprint(n + 1)
			}
			switch rnd.Intn(11) {
			case 0:
				pos = "statement"
				if op == "?:" {
					pos = "define"
					site("\tx := "+x+"\n", 0)
					src.add(show("x"))
					shown = []string{v}
				} else {
					site("\t"+x+"\n", 0)
					src.add(fmt.Sprintf("\tShow(%q, %d)\n", tag, k))
				}
			case 1:
				pos = "define"
				site("\tx := "+x+"\n", 0)
				src.add(show("x"))
				shown = []string{v}
			case 2:
				pos = "assign"
				src.add("\tvar x int\n")
				site("\tx = "+x+"\n", 0)
				src.add(show("x"))
				shown = []string{v}
			case 3:
				pos = "var-decl"
				site("\tvar x = "+x+"\n", 0)
				src.add(show("x"))
				shown = []string{v}
			case 4:
				pos = "argument"
				site("\tx := id1("+x+")\n", 0)
				src.add(show("x"))
				shown = []string{v}
			case 5:
				pos = "operand"
				site("\tx := "+x+" + 1\n", 0)
				src.add(show("x"))
				shown = []string{inc(v)}
			case 6:
				if op == "?" {
					// the in-place expansion of ? cannot live in an if header ("too many init statements"); not a listed position
					pos = "define"
					site("\tx := "+x+"\n", 0)
					src.add(show("x"))
					shown = []string{v}
					break
				}
				pos = "if-init"
				site("\tif v := "+x+"; v != -12345 {\n", 0)
				src.add("\t" + show("v") + "\t}\n")
				shown = []string{v}
			case 7:
				pos = "list-element"
				site("\txs := ["+x+", 7]\n", 0)
				src.add(show("xs[0], xs[1]"))
				shown = []string{v, "7"}
			case 8:
				pos = "argument-second-line"
				src.add("\tx := id1(\n")
				site("\t\t"+x+",\n", 0)
				src.add("\t)\n")
				src.add(show("x"))
				shown = []string{v}
			case 9:
				pos = "inside-function-literal"
				if op == "?" {
					// `?` returns from the literal, not from the scenario function
					src.add("\tf := func() (int, error) {\n")
					site("\t\tv := "+x+"\n", 0)
					src.add("\t\treturn v, nil\n\t}\n\tv, err := f()\n")
					src.add(fmt.Sprintf("\techo \"%s:\", %d, \"literal returned\", v, Describe(%d, err)\n", tag, k, k))
				} else {
					src.add("\tf := func() int {\n")
					site("\t\treturn "+x+"\n", 0)
					src.add("\t}\n")
					src.add(show("f()"))
					shown = []string{v}
				}
			default:
				pos = "two-operands"
				site("\tx := "+x+" * 2 + id1("+x+")\n", 0)
				src.add(show("x"))
				var n int
				fmt.Sscan(v, &n)
				shown = []string{fmt.Sprint(n * 3)}
			}
		default:
			sel := rnd.Intn(3)
			if c.Kind == "forwarded-question-arguments" {
				sel = 2
			} else if op == "?" && sel == 2 {
				sel = 0
			}
			switch sel {
			case 0:
				pos = "define"
				names := "x, y"
				if arity == 3 {
					names = "x, y, z"
				}
				site("\t"+names+" := "+x+"\n", 0)
				src.add(show(names))
			case 1:
				pos = "assign"
				names := "x, y"
				src.add("\tvar x int\n\tvar y string\n")
				if arity == 3 {
					names = "x, y, z"
					src.add("\tvar z bool\n")
				}
				site("\t"+names+" = "+x+"\n", 0)
				src.add(show(names))
			default:
				pos = "forwarded-arguments"
				if arity == 3 {
					pos = "define"
					site("\tx, y, z := "+x+"\n", 0)
					src.add(show("x, y, z"))
				} else {
					site("\tw := pair("+x+")\n", 0)
					src.add(show("w"))
					okv = []string{fmt.Sprintf("%q", "ok/"+fmt.Sprint((k*10+2)%10))}
				}
			}
			shown = okv
		}
		r.Cover("position:" + pos)
		tag2 := tag // the scenario's lines share one tag
		_ = tag2
		if op == "?" {
			src.add("\treturn " + succRet + "\n")
		}
		src.add("}\n\n")
		// ---- expectations ----
		frame := fmt.Sprintf("wraps-original=true frame{code=%q file=%q line=%d func=%q}", code, "/p/main.xgo", frameLine, "main."+fn)
		if form == "command-style" {
			frame = fmt.Sprintf("wraps-original=true frame{code=%q file=%q line=%d func=%q}", fmt.Sprintf("%s %d, %v", callee, k, fail), "/p/main.xgo", frameLine, "main."+fn)
		}
		twoCalls := pos == "two-operands"
		calls := 1
		if twoCalls {
			calls = 2
		}
		valuesLine := func() {
			fmt.Fprintf(&want, "%s: %d values", tag, k)
			for _, v := range shown {
				fmt.Fprintf(&want, " %s", v)
			}
			want.WriteString("\n")
		}
		switch op {
		case "!":
			mainBody.WriteString("\t" + fn + "()\n")
			if fail {
				fmt.Fprintf(&want, "%s: %d recovered %s calls 1\n", tag, k, frame)
			} else {
				valuesLine()
				fmt.Fprintf(&want, "%s: %d recovered nil calls %d\n", tag, k, calls)
			}
		case "?:":
			mainBody.WriteString("\t" + fn + "()\n")
			mainBody.WriteString(fmt.Sprintf("\techo \"%s:\", %d, \"calls\", Calls[%d]\n", tag, k, k))
			valuesLine()
			fmt.Fprintf(&want, "%s: %d calls %d\n", tag, k, calls)
		case "?":
			nres := strings.Count(succRet, ",")
			var names []string
			for i := 0; i < nres; i++ {
				names = append(names, fmt.Sprintf("r%d", i))
			}
			names = append(names, "err")
			mainBody.WriteString("\t{\n\t\t" + strings.Join(names, ", ") + " := " + fn + "()\n")
			fmtArgs := ""
			for i := 0; i < nres; i++ {
				fmtArgs += fmt.Sprintf(", r%d", i)
			}
			mainBody.WriteString(fmt.Sprintf("\t\tprintf \"%s: %d returned%s %%s calls %%d\\n\"%s, Describe(%d, err), Calls[%d]\n\t}\n", tag, k, strings.Repeat(" %#v", nres), fmtArgs, k, k))
			if pos == "inside-function-literal" {
				if fail {
					fmt.Fprintf(&want, "%s: %d literal returned 0 %s\n", tag, k, frame)
				} else {
					fmt.Fprintf(&want, "%s: %d literal returned %s nil\n", tag, k, okv[0])
				}
				fmt.Fprintf(&want, "%s: %d returned%s nil calls 1\n", tag, k, succShown(succRet))
			} else if fail {
				fmt.Fprintf(&want, "%s: %d returned%s %s calls 1\n", tag, k, zeroRet, frame)
			} else {
				valuesLine()
				fmt.Fprintf(&want, "%s: %d returned%s nil calls %d\n", tag, k, succShown(succRet), calls)
			}
		}
	}
	src.add("func main() {\n" + mainBody.String() + "}\n")
	exp := want.String()
	return pairBuild{
		XGo:    map[string]string{"main.xgo": src.b.String(), "helper.go": c03Helper},
		Expect: &exp,
		Info:   info,
	}
}

// succShown renders the success results of a `?` scenario the way %#v prints them.
func succShown(succRet string) string {
	switch succRet {
	case "nil":
		return ""
	case "7, nil":
		return " 7"
	case "7, \"done\", nil":
		return ` 7 "done"`
	case "&T{\"t\"}, []int{1}, nil":
		return ` &main.T{Tag:"t"} []int{1}`
	default:
		return ` main.T{Tag:"t"} true`
	}
}

func (p *c03) PostRun(env *fw.Env, d *fw.Driver) {
	pairPostRun(env, d, p.Id, func(m progMeta, what string) string {
		return strings.Replace(what, "run:stdout-differs:", "errwrap:", 1)
	})
}
