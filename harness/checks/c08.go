package checks

import (
	"bytes"
	"fmt"
	"os"
	"path/filepath"
	"regexp"
	"sort"
	"strings"

	"verif/fw"
)

// C08 — compilation output is deterministic.
type c08 struct {
	Base
	pool []srcItem
	half int
}

func init() { fw.Register(&c08{Base: Base{Id: "C08", Lvl: "exploration"}}) }

func (p *c08) Setup(env *fw.Env) error {
	p.Env = env
	xgocWarm(env)
	p.pool = xgoPool(env)
	p.half = env.Pick(700, 20000)
	p.N = 2 * p.half
	p.RuleS = "each package is compiled 5 times in one process with the files presented in sorted, reversed and three shuffled orders, and once more in another worker process (cases i and i+N/2 build the same package; their output hashes are compared by the driver). Packages: generated multi-file packages (2-5 XGo files + optionally a Go file, 6-14 units of types, methods, functions, overloads, operators, vars with cross-file initialisation dependencies, consts, init functions, lambdas spread over the files), class-file projects (Game.tgmx + 1-4 .tspx sprites with generated handlers, + optional .xgo file, + in half of them a second project file App.t2gmx of another class framework), repository files/snippets, and error packages (a unit duplicated in two files, undefined references, type errors in several files). Oracle: the bytes written by Package.WriteTo and the error list (order included) are identical in every compilation."
	p.Assume = []string{"Go randomises map iteration per range statement, so repetition inside one process exercises map-order dependence; the second process adds a different hash seed"}
	p.Floor = map[string]int{"#evaluations": p.N * 9 / 10, "#nontrivial": p.half * 8 / 10, "kind:multi-file": p.half / 2, "kind:class-project": p.half / 6, "kind:error-package": p.half / 5, "outcome:ok": p.half / 2, "outcome:errors": p.half / 4, "compilations-compared": p.N * 3, "cross-process-pairs-compared": p.half * 9 / 10, "presentation-orders-distinct": p.half}
	return nil
}

func (p *c08) Case(i int) fw.Case {
	return fw.Case{Kind: "pkg", P: map[string]string{"pkg": fmt.Sprint(i % p.half)}}
}

var c08Units = []string{
	`type T@ struct {
	N int
	S string
}

func (t *T@) Inc(d int) int {
	t.N += d
	return t.N
}

func (t T@) String() string { return t.S }
`,
	`func f@(x int) int {
	return x*2 + c@
}

const c@ = @ + 1
`,
	`var v@ = f@b(@)

func f@b(x int) int { return x + 1 }
`,
	`func addI@(a, b int) int { return a + b }

func addS@(a, b string) string { return a + b }

func add@ = (
	addI@
	addS@
)
`,
	`type V@ struct{ X, Y int }

func (a V@) + (b V@) V@ { return V@{a.X + b.X, a.Y + b.Y} }

func (a V@) == (b V@) bool { return a.X == b.X }
`,
	`func init() {
	echo "init @"
}
`,
	`var m@ = {"a": @, "b": 2}

var l@ = [x*x for x <- :@ if x%2 == 0]
`,
	`func apply@(f func(int) int, x int) int { return f(x) }

var r@ = apply@(x => x + @, 1)
`,
	`type I@ interface {
	M@() int
}

type impl@ struct{}

func (impl@) M@() int { return @ }

var i@ I@ = impl@{}
`,
	`var (
	a@ = b@ + 1
	b@ = c@x()
)

func c@x() int { return @ }
`,
	`const (
	e@a = iota
	e@b
	e@c
)

type E@ int

func (e E@) Name() string { return ["a", "b", "c"][e] }
`,
	`func g@(xs ...int) (n int, err error) {
	for x <- xs {
		n += x
	}
	return
}
`,
}

func init() {
	// functions literally named xxx__N (the spelling overload candidates get), several per file
	c08Units = append(c08Units, "func conv@__0(x int) int { return x }\n\nfunc conv@__1(x string) string { return x }\n\nfunc conv@__2(x float64) float64 { return x + undefinedConv@ }\n\nfunc conv@__3() {}\n")
	c08Units = append(c08Units, "func plain@__0(x int) int { return x }\n\nfunc plain@__1(x string) string { return x }\n\nfunc plain@__2(x, y int) int { return x + y }\n")
}

var c08GoUnits = []string{
	`func GoF@(x int) int { return x + @ }

type GoT@ struct{ A int }

func (g *GoT@) Get() int { return g.A }
`,
	`var GoV@ = map[string]int{"k": @}

const GoC@ = "go@"
`,
}

var c08SpriteStmts = []string{`setCostume "c@"`, `say "hi @", @`, `broadcast "m@"`, `play "p@"`, `x@ := round(@.5)
	_ = x@`, `echo "sprite @"`}

func (p *c08) pkg(k int) (files map[string]string, kind string) {
	r := p.Env.Rand("C08pkg", k)
	files = map[string]string{}
	sub := func(t string, id int) string { return strings.ReplaceAll(t, "@", fmt.Sprint(id)) }
	switch sel := r.Intn(10); {
	case sel < 5 || sel >= 8:
		kind = "multi-file"
		nf := r.Range(2, 5)
		bodies := make([]strings.Builder, nf)
		nu := r.Range(6, 14)
		var uses []string
		for u := 0; u < nu; u++ {
			t := r.Intn(len(c08Units))
			bodies[r.Intn(nf)].WriteString(sub(c08Units[t], u) + "\n")
			switch t {
			case 1:
				uses = append(uses, fmt.Sprintf("f%d(1)", u))
			case 2:
				uses = append(uses, fmt.Sprintf("v%d", u))
			case 3:
				uses = append(uses, fmt.Sprintf("add%d(1, 2)", u), fmt.Sprintf("add%d(\"a\", \"b\")", u))
			case 4:
				uses = append(uses, fmt.Sprintf("V%d{1, 2} + V%d{3, 4}", u, u))
			case 6:
				uses = append(uses, fmt.Sprintf("m%d", u), fmt.Sprintf("l%d", u))
			case 7:
				uses = append(uses, fmt.Sprintf("r%d", u))
			case 8:
				uses = append(uses, fmt.Sprintf("i%d.M%d()", u, u))
			case 9:
				uses = append(uses, fmt.Sprintf("a%d", u))
			}
		}
		var gobody strings.Builder
		if r.Chance(1, 2) {
			gobody.WriteString("package main\n\n")
			for u := 0; u < r.Range(1, 3); u++ {
				gobody.WriteString(sub(c08GoUnits[r.Intn(len(c08GoUnits))], 100+u) + "\n")
			}
			files["zgo.go"] = gobody.String()
		}
		mainAt := r.Intn(nf)
		for i := range bodies {
			s := bodies[i].String()
			if i == mainAt {
				s += "\nfunc main() {\n"
				for _, u := range uses {
					s += "\techo " + u + "\n"
				}
				s += "}\n"
			}
			files[fmt.Sprintf("f%d.xgo", i)] = s
		}
		if sel >= 8 {
			kind = "error-package"
			switch r.Intn(3) {
			case 0: // a unit declared twice, in two files
				dup := sub(c08Units[r.Intn(len(c08Units))], 900)
				files["f0.xgo"] += "\n" + dup
				files["f1.xgo"] += "\n" + dup
			case 1: // undefined references in several files
				for i := 0; i < nf; i++ {
					files[fmt.Sprintf("f%d.xgo", i)] += fmt.Sprintf("\nvar u%d = undefined%d + undefinedB%d\n", i, i, i)
				}
			default: // type errors in several files
				for i := 0; i < nf; i++ {
					files[fmt.Sprintf("f%d.xgo", i)] += fmt.Sprintf("\nvar t%d int = \"s%d\"\nfunc te%d() { var x string = %d; _ = x }\n", i, i, i, i)
				}
			}
		}
	case sel < 7:
		kind = "class-project"
		files["Game.tgmx"] = "var (\n\tscore int\n)\n\nfunc onInit() {\n\tbroadcast \"start\"\n\tscore = " + fmt.Sprint(k%7) + "\n}\n"
		all := []string{"Kai", "Bob", "Amy", "Zed"}
		var names []string
		for _, i := range r.Perm(len(all)) {
			names = append(names, all[i])
		}
		for i := 0; i < r.Range(1, 4); i++ {
			var b strings.Builder
			b.WriteString("var (\n\thp int\n)\n\nfunc onInit() {\n")
			for j := 0; j < r.Range(1, 4); j++ {
				b.WriteString("\t" + sub(fw.Pick(r, c08SpriteStmts), i*10+j+1) + "\n")
			}
			b.WriteString("}\n\nfunc onMsg(msg string) {\n\thp++\n}\n")
			files[names[i]+".tspx"] = b.String()
		}
		if r.Chance(1, 3) {
			files["util.xgo"] = "func helper(x int) int { return x + 1 }\n"
		}
		if r.Chance(1, 2) { // a second project file, of another class framework: project files must load in sorted order
			files["App.t2gmx"] = "func onStart() {\n\techo \"app" + fmt.Sprint(k%5) + "\"\n}\n"
		}
	default:
		kind = "corpus"
		it := p.pool[r.Intn(len(p.pool))]
		name := "a.xgo"
		if it.Class {
			name = "a.gox"
		}
		files[name] = string(it.Src)
	}
	return
}

func (p *c08) Run(c fw.Case, r *fw.Rec) {
	var k int
	fmt.Sscan(c.P["pkg"], &k)
	files, kind := p.pkg(k)
	r.Cover("kind:" + kind)
	n := len(files)
	rnd := p.rnd(c.Idx)
	orders := [][]int{nil}
	rev := make([]int, n)
	for i := range rev {
		rev[i] = n - 1 - i
	}
	orders = append(orders, rev)
	for j := 0; j < 3; j++ {
		o := rnd.Perm(n)
		orders = append(orders, o)
	}
	distinct := map[string]bool{}
	for _, o := range orders {
		distinct[fmt.Sprint(o)] = true
	}
	if len(distinct) > 1 {
		r.Cover("presentation-orders-distinct")
	}
	var first compileResult
	var firstErrs string
	for j, o := range orders {
		res := compileXGo(p.Env.Repo, files, compileOpts{GenMain: true, Order: o})
		if res.Panic != nil {
			r.Skip("compiler-panicked(C07)")
			return
		}
		if !res.Parsed {
			r.Skip("parser-returned-no-package")
			return
		}
		errs := strings.Join(res.ErrList, "\n")
		if res.ParseErr != nil {
			errs = "parse: " + res.ParseErr.Error() + "\n" + errs
		}
		if j == 0 {
			first, firstErrs = res, errs
			continue
		}
		r.Cover("compilations-compared")
		if !bytes.Equal(res.Out, first.Out) {
			r.Fail("output-differs-between-compilations:"+kind, "compilation %d (file order %v) wrote different bytes than compilation 0 at %s\nfiles: %v", j, o, firstDiffLine(string(first.Out), string(res.Out)), keysOf(files))
			return
		}
		if errs != firstErrs {
			sa, sb := strings.Split(firstErrs, "\n"), strings.Split(errs, "\n")
			sort.Strings(sa)
			sort.Strings(sb)
			what := "error-list-differs"
			if strings.Join(sa, "\n") == strings.Join(sb, "\n") {
				what = "error-list-order-differs"
			}
			r.Fail(what+":"+c08ErrSig(sa, sb, firstErrs, errs), "compilation %d (file order %v) reports a different error list:\n--- compilation 0 ---\n%s\n--- compilation %d ---\n%s", j, o, clipS(firstErrs, 1200), j, clipS(errs, 1200))
			return
		}
	}
	if first.Err == nil && first.ParseErr == nil {
		r.Cover("outcome:ok")
	} else {
		r.Cover("outcome:errors")
	}
	r.NonTrivial()
	r.DistinctKey(fmt.Sprint(files))
	// leave a hash for the cross-process comparison
	dir := filepath.Join(p.Env.Scratch, "hashes")
	os.MkdirAll(dir, 0o755)
	h := fw.ShortHash(append(append([]byte{}, first.Out...), []byte("\x00"+firstErrs)...))
	os.WriteFile(filepath.Join(dir, fmt.Sprintf("%d.%d", k, c.Idx/p.half)), []byte(fmt.Sprintf("%s %d %s\n", h, os.Getpid(), kind)), 0o644)
}

func (p *c08) PostRun(env *fw.Env, d *fw.Driver) {
	agg := &fw.Agg{Cover: map[string]int{}}
	for k := 0; k < p.half; k++ {
		a, err1 := os.ReadFile(filepath.Join(env.Scratch, "hashes", fmt.Sprintf("%d.0", k)))
		b, err2 := os.ReadFile(filepath.Join(env.Scratch, "hashes", fmt.Sprintf("%d.1", k)))
		if err1 != nil || err2 != nil {
			continue
		}
		fa, fb := strings.Fields(string(a)), strings.Fields(string(b))
		agg.Cover["cross-process-pairs-compared"]++
		if fa[1] != fb[1] {
			agg.Cover["cross-process-pairs-in-different-processes"]++
		}
		if fa[0] != fb[0] {
			c := p.Case(k)
			c.Idx = k
			d.AddViolation(fw.Violation{Idx: k, Site: "output-differs-between-processes:" + fa[2], Msg: fmt.Sprintf("package %d compiled in process %s and in process %s produced different output/error hashes (%s vs %s)", k, fa[1], fb[1], fa[0], fb[0]), Case: c})
		}
	}
	d.AddAgg(agg)
}

var reLabelName = regexp.MustCompile(`label-[^-]+-`)

// c08ErrSig names the first message that sits at a different place in the two lists (names removed).
func c08ErrSig(sortedA, sortedB []string, a, b string) string {
	la, lb := strings.Split(a, "\n"), strings.Split(b, "\n")
	for i := 0; i < len(la) && i < len(lb); i++ {
		if la[i] != lb[i] {
			return reLabelName.ReplaceAllString(errSig(la[i]), "label-X-")
		}
	}
	return "length"
}
