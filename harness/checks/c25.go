package checks

import (
	"fmt"
	"strings"

	xformat "github.com/goplus/xgo/x/format"

	"verif/fw"
	"verif/gen"
)

// C25 — Go-to-XGo style conversion (xgo fmt --smart) preserves behaviour.
type c25 struct {
	Base
}

func init() { fw.Register(&c25{Base: Base{Id: "C25", Lvl: "exploration"}}) }

func (p *c25) Setup(env *fw.Env) error {
	p.Env = env
	xgocWarm(env)
	p.N = env.Pick(60, 2400)
	p.RuleS = "each case is a generated, go/types-checked Go main package (the C01 generator biased towards fmt.Print*/Sprint*/Errorf/Fprint* calls, package-function calls and function-literal arguments, plus a function of hand-shaped call statements: first arguments that start with -, (, [, *, &, !, a literal or a function literal; zero-argument prints; multi-statement, named-result and unnamed-parameter function literals; sort.Slice/strings.Map callbacks; identifiers that shadow an import). The program is converted by x/format.GopstyleSource (what `xgo fmt --smart` calls), the result saved as main.xgo, compiled by the XGo compiler and built; the original is built by the Go toolchain. Oracle: conversion and compilation succeed and stdout, exit status and panic line are identical. Probe kinds (own sites): a user function named like an XGo builtin (printf, echo, ...), a local := variable named fmt."
	p.Assume = []string{"programs go/types rejects are discarded", "both binaries are built by the same Go toolchain"}
	p.Floor = map[string]int{"#evaluations": p.N * 9 / 10, "#nontrivial": p.N / 3, "pairs-executed": p.N / 3, "stdout-lines-compared": p.N * 10, "converted:fmt-call-became-builtin": p.N / 2, "converted:lambda": p.N / 2, "converted:command-style": p.N / 2, "converted:lowercase-call": p.N / 2}
	return nil
}

func (p *c25) Case(i int) fw.Case {
	k := "gogen"
	switch i % 12 {
	case 5:
		k = "user-func-named-like-builtin"
	case 11:
		k = "local-named-like-import"
	}
	return fw.Case{Kind: k}
}

var c25Shapes = []string{
	`fmt.Println(-@A, +@B)`,
	`fmt.Println((@A + @B) * 2)`,
	`fmt.Println((@A + @B) * 2, "tail")`,
	`fmt.Println([]int{@A, @B})`,
	`fmt.Println([]int{@A, @B}[0])`,
	`fmt.Println(map[string]int{"a": @A}["a"])`,
	`fmt.Println(*(&xs[0]))`,
	`fmt.Println(!(@A > @B))`,
	`fmt.Println()`,
	`fmt.Print("a", @A, "b\n")`,
	`fmt.Print()`,
	`fmt.Println(func() int { return @A }())`,
	`fmt.Println(twice(func(x int) int { return x*2 + @A }, @B))`,
	`fmt.Println(twice(func(x int) int {
		x += @A
		return x * @B
	}, 3))`,
	`fmt.Println(twice(func(int) int { return @A }, @B))`,
	`fmt.Println(twice(func(x int) (n int) {
		n = x + @A
		return
	}, @B))`,
	`fmt.Println("a" +
		"b", @A)`,
	`fmt.Printf("%d %v\n", total(xs...), xs)`,
	`fmt.Printf("%s\n", strings.NewReplacer("a", "b").Replace("banana"))`,
	`sort.Slice(xs, func(i, j int) bool { return xs[i] > xs[j] })`,
	`sort.Ints(xs)`,
	`fmt.Println(strings.Map(func(r rune) rune { return r + 1 }, "abc"))`,
	`fmt.Println(strings.Map(func(r rune) rune {
		if r == 'b' {
			return -1
		}
		return r
	}, "abc"))`,
	`fmt.Fprintf(os.Stdout, "%v|%v\n", @A, @B)`,
	`fmt.Fprint(os.Stdout, @A, "\n")`,
	`_, _ = fmt.Println(@A)`,
	`if n, err := fmt.Println(@A); err == nil {
		fmt.Println(n)
	}`,
	`defer fmt.Println("deferred", @A)`,
	`defer func() { fmt.Println("deferred-lit", @B) }()`,
	`fmt.Println(fmt.Sprintln(@A, @B), fmt.Sprint(@A, "x", @B))`,
	`fmt.Println(errors.Is(fmt.Errorf("w: %w", errBase), errBase))`,
	`func() { fmt.Println("iife", @A) }()`,
	`fmt.Println(strconv.Itoa(@A) + strconv.FormatInt(int64(@B), 2))`,
	`fmt.Println(keys(map[string]int{"k": @A, "j": @B}))`,
	`var pf = fmt.Sprintf
	fmt.Println(pf("%d", @A))`,
	`fmt.Println(S{Num: @A}.Sum(), (&Sq{@B}).Area(), Rect{@A, @B}.Label())`,
	`fmt.Println(at(xs, @A), sub("hello", @A, @B))`,
	`fmt.Println("x", (@A), [2]int{@A, @B})`,
	`fmt.Println(<-func() chan int { c := make(chan int, 1); c <- @A; return c }())`,
	`go func() {}()`,
	`twice(func(x int) int { return x }, @A)
	func(f func()) { f() }(func() { return })
	func(f func()) { f() }(func() {})`,
	`fmt.Println(@A, /* inline */ @B) // trailing`,
	`fmt.Printf("%c%c\n", 'a'+rune(@A%5), '$')`,
	// lambda parameters named like builtins, variadic literals, statement calls that start with a parenthesis,
	// calls whose closing parenthesis is on its own line
	`each2(xs, func(i, echo int) { fmt.Println(i, echo) })`,
	`each2(xs, func(printf, sprint int) {
		fmt.Printf("%d %s\n", printf, fmt.Sprint(sprint))
	})`,
	`fmt.Println(countV(func(vs ...int) int { return len(vs) + @A }))`,
	`(&S{Num: @A}).Inc(@B)`,
	`(*(&xs))[0]++`,
	`fmt.Println("a",
		@A,
	)`,
	`fmt.Printf("%d %d\n",
		@A, @B)`,
	`twice(func(x int) int { return x + 1 },
		@A,
	)`,
	// names declared in an if/for/switch header shadow in every branch of the statement
	`if sprint := strings.Repeat("*", @A%3); sprint == "" {
		fmt.Println("empty")
	} else if len(sprint) == 1 {
		fmt.Println(fmt.Sprint(@A, sprint))
	} else {
		fmt.Println(fmt.Sprint(@B) + sprint)
	}`,
	`if printf, ok := interface{}(@A).(int); !ok {
		fmt.Println("no")
	} else {
		fmt.Printf("%d %d\n", printf, @B)
	}`,
	`for echo := 0; echo < @B%3; echo++ {
		fmt.Println("loop", echo)
	}`,
	`switch errorf := @A % 2; errorf {
	case 0:
		fmt.Println(fmt.Errorf("even %d", errorf))
	default:
		fmt.Println(fmt.Errorf("odd %d", errorf))
	}`,
	`func(sprintf string) {
		fmt.Println(fmt.Sprintf("%s-%d", sprintf, @A))
	}("p")`,
	`for _, println := range []int{@A, @B} {
		fmt.Println(println)
	}`,
}

func c25Extra(r *fw.Rand) string {
	var b strings.Builder
	b.WriteString("func extra() {\n\txs := []int{3, 1, 2}\n\t_ = xs\n")
	n := r.Range(4, 9)
	for i := 0; i < n; i++ {
		s := fw.Pick(r, c25Shapes)
		s = strings.ReplaceAll(s, "@A", fmt.Sprint(r.Range(0, 9)))
		s = strings.ReplaceAll(s, "@B", fmt.Sprint(r.Range(1, 7)))
		if strings.HasPrefix(s, "defer") || strings.HasPrefix(s, "var ") {
			b.WriteString("\tfunc() {\n\t\t" + strings.ReplaceAll(s, "\n", "\n\t") + "\n\t}()\n")
		} else {
			b.WriteString("\t" + s + "\n")
		}
	}
	b.WriteString("\tfmt.Println(xs)\n\tfmt.Println(describeStringer(S{Num: 1, Txt: \"t\"}), stringerOf(3))\n}\n\n")
	// fmt named only in signatures (the import must survive the conversion)
	b.WriteString("func each2(xs []int, f func(i, v int)) {\n\tfor i, x := range xs {\n\t\tf(i, x)\n\t}\n}\n\nfunc countV(f func(vs ...int) int) int { return f(1, 2, 3) }\n\n")
	b.WriteString("func describeStringer(s fmt.Stringer) string { return \"<\" + s.String() + \">\" }\n\nfunc stringerOf(n int) fmt.Stringer { return S{Num: n} }\n\n")
	return b.String()
}

const c25UserBuiltin = `
func NAME(format string, a ...any) {
	os.Stdout.WriteString("[mine] " + fmt.Sprint(format) + fmt.Sprint(a...) + "\n")
}

func userBuiltin() {
	NAME("direct %d", 1)
	fmt.FMTNAME("via fmt %d\n", 2)
	fmt.Println("end")
}
`

const c25LocalImport = `
type pr struct{ tag string }

func (p pr) Println(a ...any) { os.Stdout.WriteString(p.tag + fmt.Sprint(a...) + "\n") }
func (p pr) Sprint(a ...any) string { return p.tag + "S" }

func localImport(strings pr) {
	{
		fmt := pr{"[local] "}
		fmt.Println("one", 1)
		_ = fmt.Sprint("x")
		os.Stdout.WriteString(fmt.Sprint("two") + "\n")
	}
	var v = func() string {
		var fmt = pr{"[var] "}
		return fmt.Sprint("three")
	}()
	strings.Println(v)
	fmt.Println("after", v)
}
`

func (p *c25) program(c fw.Case) (string, map[string]string) {
	r := p.rnd(c.Idx)
	g := &gen.GoGen{R: r, FmtBias: true, NoHdrLit: true}
	src := g.Program(r.Range(2, 5))
	extra := c25Extra(r)
	call := "\textra()\n"
	if c.Kind != "gogen" {
		src, extra, call = g.Program(0), "", "" // probes stand alone
	}
	info := map[string]string{}
	switch c.Kind {
	case "user-func-named-like-builtin":
		pairs := [][2]string{{"printf", "Printf"}, {"errorf", "Errorf"}, {"sprintf", "Sprintf"}, {"fprintf", "Fprintf"}, {"echo", "Println"}, {"print", "Print"}, {"sprint", "Sprint"}}
		pr := fw.Pick(r, pairs[:2])
		t := c25UserBuiltin
		if pr[0] == "errorf" {
			t = strings.ReplaceAll(t, `fmt.FMTNAME("via fmt %d\n", 2)`, `fmt.Println(fmt.Errorf("via fmt %d", 2))`)
		}
		extra += strings.ReplaceAll(strings.ReplaceAll(t, "FMTNAME", pr[1]), "NAME", pr[0])
		call += "\tuserBuiltin()\n"
		info["probe"] = "user-function-named-like-builtin"
	case "local-named-like-import":
		extra += c25LocalImport
		call += "\tlocalImport(pr{\"[param] \"})\n"
		info["probe"] = "local-variable-named-like-import"
	}
	src = strings.Replace(src, "func main() {\n", extra+"func main() {\n"+call, 1)
	return src, info
}

func (p *c25) Run(c fw.Case, r *fw.Rec) {
	src, info := p.program(c)
	if err := goTypeCheck(p.Env.Repo, map[string]string{"main.go": src}); err != nil {
		r.Skip("generator-produced-ill-typed-go")
		r.Cover("ill-typed:" + errSig(err.Error()))
		return
	}
	r.Cover("go-accepted")
	r.Cover("kind:" + c.Kind)
	var out []byte
	var err error
	if fw.Guard(r, "GopstyleSource", func() { out, err = xformat.GopstyleSource([]byte(src), "main.go") }) {
		return
	}
	if err != nil {
		r.Fail(pairSite(info, "convert:error:"+errSig(err.Error())), "GopstyleSource fails on a valid Go program: %v", err)
		return
	}
	conv := string(out)
	if strings.Contains(conv, "=>") {
		r.Cover("converted:lambda")
	}
	if strings.Contains(conv, "echo ") || strings.Contains(conv, "printf ") {
		r.Cover("converted:command-style")
	}
	if strings.Contains(conv, "echo") && !strings.Contains(conv, "fmt.Println") {
		r.Cover("converted:fmt-call-became-builtin")
	}
	if strings.Contains(conv, "strings.toUpper") || strings.Contains(conv, "strconv.quote") || strings.Contains(conv, "sort.") {
		r.Cover("converted:lowercase-call")
	}
	if !strings.Contains(conv, "package main") {
		r.Cover("converted:package-clause-dropped")
	}
	if !strings.Contains(conv, "func main()") {
		r.Cover("converted:main-became-shadow-entry")
	}
	pairWorker(p.Env, p.Id, c, r, pairBuild{
		Ref:  map[string]string{"main.go": src},
		XGo:  map[string]string{"main.xgo": conv},
		Info: info,
	})
}

func (p *c25) PostRun(env *fw.Env, d *fw.Driver) {
	pairPostRun(env, d, p.Id, nil)
}

func xformatDebug(src []byte) ([]byte, error) { return xformat.GopstyleSource(src, "main.go") }
