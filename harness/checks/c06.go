package checks

import (
	"fmt"
	goast "go/ast"
	goparser "go/parser"
	gotoken "go/token"
	gotypes "go/types"
	"strings"

	"verif/fw"
	"verif/gen"
)

// C06 — compiler success implies valid, well-typed Go output.
type c06 struct {
	Base
	pool []srcItem
}

func init() { fw.Register(&c06{Base: Base{Id: "C06", Lvl: "exploration"}}) }

func (p *c06) Setup(env *fw.Env) error {
	p.Env = env
	xgocWarm(env)
	p.pool = xgoPool(env)
	p.N = len(p.pool) + env.Pick(1200, 60000)
	p.RuleS = fmt.Sprintf("every repository XGo/class file and harvested test snippet (%d), then generated packages: typed Go programs saved as .xgo (C01 generator), the sugar programs of C03/C04/C05 (error wrapping, range expressions, interpolation), syntactic XGo/class files, and near-miss variants of all of them (1-3 token mutations: dropped/duplicated/swapped tokens, replaced identifiers and literals, changed operators), single- and two-file packages. Each package is compiled in-process (cl.NewPackage + WriteTo). Oracle, applied whenever the compiler reports no error: the written source parses with go/parser, go/types accepts it (imports resolved from the toolchain's export data), and — for a deterministic sample of the successful outputs — `go build` accepts it (one batch build, driver side). Sites are the Go checker's message with names and positions removed.", len(p.pool))
	p.Assume = []string{"the output is checked as the compiler writes it (one file, package as named by the source)", "outputs importing packages the sandbox cannot resolve are skipped (counted)"}
	p.Floor = map[string]int{"#evaluations": p.N * 9 / 10, "#nontrivial": p.N / 12, "compiler-reported-success": p.N / 12, "compiler-reported-errors": p.N / 4, "kind:near-miss": p.N / 6, "output-type-checked": p.N / 12, "near-miss-accepted-by-compiler": p.N / 800, "outputs-built-by-go": 20}
	return nil
}

func (p *c06) Case(i int) fw.Case {
	if i < len(p.pool) {
		return fw.Case{Kind: "corpus", P: map[string]string{"i": fmt.Sprint(i)}}
	}
	r := p.rnd(i)
	typed := false
	baseKind := ""
	base := func() (string, string) {
		typed = false
		defer func() {
			if !typed && baseKind == "" {
				baseKind = "other"
			}
		}()
		baseKind = ""
		sub := fw.Case{Idx: i}
		rec := fw.NewScratchRec(sub)
		switch r.Intn(10) {
		case 0, 1, 2:
			typed, baseKind = true, "go"
			g := &gen.GoGen{R: r}
			src := g.Program(r.Range(1, 3))
			if r.Chance(1, 4) {
				// a type switch over unnamed composite types; in half of them one composite type is listed twice
				// (invalid Go: the compiler has to report it, types.Identical and not pointer identity decides)
				comp := []string{"[]int", "map[string]int", "*tsT", "func()", "chan int", "[3]int", "struct{ a int }"}
				a, b := comp[r.Intn(len(comp))], comp[r.Intn(len(comp))]
				for b == a {
					b = comp[r.Intn(len(comp))]
				}
				second := "string"
				if r.Chance(1, 2) {
					second = "string, " + a
				}
				src += "\ntype tsT struct{}\n\nfunc tsKind(v any) int {\n\tswitch v.(type) {\n\tcase int:\n\t\treturn 0\n\tcase " + a + ", " + b + ":\n\t\treturn 1\n\tcase " + second + ":\n\t\treturn 2\n\t}\n\treturn -1\n}\n\nvar _ = tsKind(tsT{})\n"
			}
			return "a.xgo", src
		case 3:
			typed, baseKind = true, "sugar"
			pb := (&c03{Base: Base{Id: "C03", Env: p.Env}}).build(fw.Case{Idx: i, Kind: "scenarios"}, rec)
			return "a.xgo", pb.XGo["main.xgo"] + "\n// helper\n" + c06InlineHelper
		case 4:
			typed, baseKind = true, "sugar"
			pb := (&c04{Base: Base{Id: "C04", Env: p.Env}}).build(sub, rec)
			return "a.xgo", pb.XGo["main.xgo"]
		case 5:
			typed, baseKind = true, "sugar"
			pb := (&c05{Base: Base{Id: "C05", Env: p.Env}}).build(sub, rec)
			return "a.xgo", pb.XGo["main.xgo"]
		case 6:
			g := &gen.XSyn{R: r}
			return "a.xgo", g.File(false)
		case 7:
			g := &gen.XSyn{R: r}
			return "b.gox", g.File(true)
		default:
			it := fw.Pick(r, p.pool)
			name := "d.xgo"
			if it.Class {
				name = "d.gox"
			}
			return name, string(it.Src)
		}
	}
	n, s := base()
	switch k := r.Intn(10); {
	case k < 3:
		return fw.Case{Kind: "generated", Aux: []string{n, s}, P: map[string]string{"base": baseKind}}
	case k < 9:
		for !typed { // near-miss variants start from well-typed generated programs
			n, s = base()
		}
		return fw.Case{Kind: "near-miss", Aux: []string{n, string(tokenMutate(r, []byte(s), r.Range(1, 3)))}, P: map[string]string{"base": baseKind}}
	default:
		n2, s2 := base()
		if n2 == n {
			n2 = "x" + n2
		}
		return fw.Case{Kind: "two-files", Aux: []string{n, s, n2, s2}, P: map[string]string{"base": "other"}}
	}
}

// c06InlineHelper stands in for the Go helper file of the C03 programs (same names, XGo syntax is Go here).
const c06InlineHelper = `
type MyErr struct{ K int }

func (e *MyErr) Error() string { return "myerr" }

var Errs = map[int]*MyErr{}
var Calls = map[int]int{}

func mk(k int) error {
	e := &MyErr{k}
	Errs[k] = e
	return e
}

func Describe(k int, v any) string { return "" }

type T struct{ Tag string }

func Show(tag string, k int, vs ...any) {}
`

func (p *c06) Run(c fw.Case, r *fw.Rec) {
	files := map[string]string{}
	if c.Kind == "corpus" {
		var i int
		fmt.Sscan(c.P["i"], &i)
		it := p.pool[i]
		name := "a.xgo"
		if it.Class {
			name = "a.gox"
			if strings.HasSuffix(it.Name, ".tspx") || strings.HasSuffix(it.Name, ".tgmx") {
				name = "a" + it.Name[strings.LastIndex(it.Name, "."):]
			}
		}
		files[name] = string(it.Src)
	} else {
		for k := 0; k+1 < len(c.Aux); k += 2 {
			files[c.Aux[k]] = c.Aux[k+1]
		}
	}
	r.Cover("kind:" + c.Kind)
	res := compileXGo(p.Env.Repo, files, compileOpts{GenMain: true})
	if res.Panic != nil {
		r.Skip("compiler-panicked(C07)")
		return
	}
	if !res.Parsed {
		r.Skip("parser-returned-no-package")
		return
	}
	if res.ParseErr != nil || res.Err != nil {
		r.Cover("compiler-reported-errors")
		return
	}
	r.Cover("compiler-reported-success")
	if c.Kind == "near-miss" {
		r.Cover("near-miss-accepted-by-compiler")
	}
	out := string(res.Out)
	fset := gotoken.NewFileSet()
	f, err := goparser.ParseFile(fset, "xgo_autogen.go", out, goparser.SkipObjectResolution)
	if err != nil {
		r.Fail(p.site(c, files, "output-does-not-parse", err.Error(), out, r), "the compiler reported success but go/parser rejects its output: %v\n--- sources ---\n%s\n--- output ---\n%s", err, clipS(fmt.Sprint(files), 1500), clipS(out, 2500))
		return
	}
	var unresolved bool
	conf := gotypes.Config{Importer: importerFunc(func(path string) (*gotypes.Package, error) {
		pkg, err := xgocImp.Import(path)
		if err != nil {
			unresolved = true
		}
		return pkg, err
	})}
	var first error
	conf.Error = func(e error) {
		if first == nil {
			first = e
		}
	}
	conf.Check(f.Name.Name, fset, []*goast.File{f}, nil)
	if unresolved {
		r.Skip("output-imports-unresolvable-package")
		return
	}
	r.Cover("output-type-checked")
	r.NonTrivial()
	r.DistinctKey(out)
	if first != nil {
		r.Fail(p.site(c, files, "output-ill-typed", first.Error(), out, r), "the compiler reported success but go/types rejects its output: %v\n--- sources ---\n%s\n--- output ---\n%s", first, clipS(fmt.Sprint(files), 1500), clipS(out, 2500))
		return
	}
	// sample for the real toolchain (driver side)
	if f.Name.Name == "main" && (c.Idx%7 == 0 || c.Kind == "near-miss") && !strings.Contains(out, "/internal/") {
		name := fmt.Sprintf("c06_%06d", c.Idx)
		if err := progWrite(p.Env, name, map[string]string{"xgo_autogen.go": out}); err == nil {
			progWriteMeta(p.Env, progMeta{Idx: c.Idx, Case: c, Pkgs: []string{name}, Sources: map[string]string{"xgo_autogen.go": out}})
		}
	}
}

// site classifies a rejection of the output by what is known about the input:
//   - a generated program that is valid by construction, or a near-miss of a Go-compatible program that go/types
//     still accepts as Go: the lowering is wrong -> "lowering:<stage>:<signature>" (specific);
//   - a near-miss of a Go-compatible program that go/types rejects as Go: the compiler accepted an invalid program
//     (it leaves that check to `go build`) -> one site;
//   - near-misses of XGo-only programs and syntactic soup, whose validity no independent oracle decides -> one site;
//   - repository files and snippets (a fixed list) -> "corpus:<signature>".
func (p *c06) site(c fw.Case, files map[string]string, stage, msg, out string, r *fw.Rec) string {
	sig := c06Sig(msg, out)
	r.Cover("go-rejection-class:" + sig)
	switch {
	case c.Kind == "corpus":
		return "corpus:" + stage + ":" + sig
	case c.Kind == "generated" && c.P["base"] != "other":
		return "lowering:" + stage + ":" + sig
	case c.P["base"] == "go" && c.Kind == "near-miss":
		gofiles := map[string]string{}
		for n, s := range files {
			gofiles[strings.TrimSuffix(n, ".xgo")+".go"] = s
		}
		if err := goTypeCheck(p.Env.Repo, gofiles); err != nil {
			r.Cover("invalid-go-input-rejected-by-go-as:" + c06Sig(err.Error(), ""))
			return "accepts-invalid-program:near-miss-of-a-go-program-that-go-rejects-too"
		}
		return "lowering:" + stage + ":" + sig
	default:
		return "accepts-program-go-rejects:input-validity-undecided(near-miss-of-xgo-program-or-syntactic-soup)"
	}
}

type importerFunc func(path string) (*gotypes.Package, error)

func (f importerFunc) Import(path string) (*gotypes.Package, error) { return f(path) }

// c06Sig: checker message without position and names; syntax errors on a statement header holding a composite
// literal are the recognisable gogen family.
func c06Sig(msg, out string) string {
	if m := reBuildLoc.FindStringSubmatch(msg); m != nil && strings.Contains(msg, "expected") {
		var ln int
		fmt.Sscan(m[1], &ln)
		lines := strings.Split(out, "\n")
		if ln >= 1 && ln <= len(lines) && reHdrLit.MatchString(lines[ln-1]) {
			return "composite-literal-unparenthesised-in-" + reHdrClause.FindStringSubmatch(lines[ln-1])[1] + "-header"
		}
	}
	if i := strings.Index(msg, ".go:"); i >= 0 {
		rest := msg[i+4:]
		if parts := strings.SplitN(rest, ": ", 2); len(parts) == 2 {
			msg = parts[1]
		}
	}
	// checks XGo leaves to the Go compiler (one class each)
	for _, d := range []struct{ pat, class string }{
		{"declared and not used", "delegated-to-go:declared-and-not-used"},
		{"imported and not used", "delegated-to-go:imported-and-not-used"},
		{"defined and not used", "delegated-to-go:label-defined-and-not-used"},
		{") is not used", "delegated-to-go:value-is-not-used"},
		{"missing return", "delegated-to-go:missing-return"},
		{"(type) is not an expression", "delegated-to-go:type-is-not-an-expression"},
		{"(no value) used as value", "delegated-to-go:no-value-used-as-value"},
		{"is not a type", "delegated-to-go:is-not-a-type"},
	} {
		if strings.Contains(msg, d.pat) {
			return d.class
		}
	}
	return errSig(msg)
}

func (p *c06) PostRun(env *fw.Env, d *fw.Driver) {
	metas := progReadMetas(env)
	if len(metas) == 0 {
		return
	}
	failed, err := progBuild(env, false)
	if err != nil {
		d.Inconclusive(err.Error())
		return
	}
	agg := &fw.Agg{Cover: map[string]int{}}
	for _, m := range metas {
		if msg, bad := failed[m.Pkgs[0]]; bad {
			d.AddViolation(fw.Violation{Idx: m.Idx, Site: "go-build-rejects-output:" + buildErrSig(msg, m.Sources["xgo_autogen.go"]), Msg: fmt.Sprintf("go/types accepted the output but `go build` rejects it:\n%s\n--- output ---\n%s", clipS(msg, 1000), clipS(m.Sources["xgo_autogen.go"], 2500)), Case: m.Case})
			continue
		}
		agg.Cover["outputs-built-by-go"]++
	}
	d.AddAgg(agg)
}
