package checks

import (
	"fmt"
	"strings"

	"verif/fw"
)

// C04 — a range expression denotes the same integer sequence in every context.
type c04 struct {
	Base
}

func init() { fw.Register(&c04{Base: Base{Id: "C04", Lvl: "exploration"}}) }

func (p *c04) Setup(env *fw.Env) error {
	p.Env = env
	xgocWarm(env)
	p.N = env.Pick(40, 1500)
	p.RuleS = "each case is an XGo program holding 5 generated range expressions start:end:step (|start|,|end| <= 12, |step| in 1..5, step omitted / start omitted forms, each operand written as a literal, a variable or a computed call), each used in nine contexts: for i <- R, for i in R, for i := range R, for j = range R, for range R (count), for i <- R if filter, [i for i <- R], [i for i <- R if filter] and {i: i*i for i <- R}. The program is compiled by the XGo compiler, built and run; every context prints the sequence it enumerated on a tagged line. Oracle: each line equals the sequence of the reference model (i = start; step>0 ? i<end : i>end; i += step) — so all contexts agree with each other and with the documented meaning. Eleven further loops have bounds written len(x), as a variable, a field, an element or a dereference while the body changes x: the operands are evaluated once. Loops carry an iteration guard (60 iterations, marker 99999) so that a runaway loop is reported, not suffered. Every context that differs is reported under its own site (context/step class)."
	p.Assume = []string{"the documented examples (doc/docs.md, Range for) fix the meaning for positive steps; for negative steps the model is the runtime range object's (x/xgo.NewRange) descending enumeration, which the property requires every context to agree with"}
	p.Floor = map[string]int{"#evaluations": p.N * 9 / 10, "#nontrivial": 1, "programs-executed": p.N * 9 / 10, "stdout-lines-compared": p.N * 30, "triple:step-negative": p.N, "triple:step-positive": p.N, "triple:empty-span": p.N / 2, "triple:non-divisible-span": p.N / 2}
	return nil
}

func (p *c04) Case(i int) fw.Case { return fw.Case{Kind: "ranges"} }

func rangeModel(start, end, step int) []int {
	var out []int
	if step > 0 {
		for i := start; i < end; i += step {
			out = append(out, i)
		}
	} else if step < 0 {
		for i := start; i > end; i += step {
			out = append(out, i)
		}
	}
	return out
}

func (p *c04) Run(c fw.Case, r *fw.Rec) {
	pairWorker(p.Env, p.Id, c, r, p.build(c, r))
}

// build generates the experiment of one case.
func (p *c04) build(c fw.Case, r *fw.Rec) pairBuild {
	rnd := p.rnd(c.Idx)
	var src, want strings.Builder
	src.WriteString("func f(x int) int { return x }\n\nfunc even(x int) bool { return x%2 == 0 }\n\nvar calls int\n\n// fe is the filter of guarded loops: after 60 calls it lets the body run so that the guard can stop a runaway loop\nfunc fe(x int) bool {\n\tcalls++\n\treturn calls > 60 || x%2 == 0\n}\n\nvar n, cnt, j int\nvar acc []int\n_ = j\n")
	for k := 0; k < 5; k++ {
		start, end := rnd.Range(-12, 12), rnd.Range(-12, 12)
		step := rnd.Range(1, 5)
		if rnd.Chance(2, 5) {
			step = -step
		}
		if rnd.Chance(1, 8) {
			end = start
		}
		omitStart, omitStep := rnd.Chance(1, 6), rnd.Chance(1, 5)
		if omitStart {
			start = 0
		}
		if omitStep {
			step = 1
		}
		cls := "step-positive"
		switch {
		case omitStep:
			cls = "step-omitted"
		case step < 0:
			cls = "step-negative"
		}
		r.Cover("triple:" + cls)
		seq := rangeModel(start, end, step)
		if len(seq) == 0 {
			r.Cover("triple:empty-span")
		} else if (end-start)%step != 0 {
			r.Cover("triple:non-divisible-span")
		}
		forms := [3]string{}
		operand := func(v int, name string, idx int) string {
			switch rnd.Intn(4) {
			case 0:
				forms[idx] = "var"
				fmt.Fprintf(&src, "%s%d := %d\n", name, k, v)
				return fmt.Sprintf("%s%d", name, k)
			case 1:
				forms[idx] = "call"
				return fmt.Sprintf("f(%d)", v)
			default:
				forms[idx] = "lit"
				return fmt.Sprint(v)
			}
		}
		rs := ""
		if !omitStart {
			rs = operand(start, "s", 0)
		}
		rs += ":" + operand(end, "e", 1)
		if !omitStep {
			rs += ":" + operand(step, "p", 2)
		}
		r.Cover("operand-form:" + forms[1])
		guard := "\tn++\n\tif n > 60 {\n\t\tacc, cnt = append(acc, 99999), 99999 // runaway marker\n\t\tbreak\n\t}\n"
		line := func(ctx string, vals any) {
			fmt.Fprintf(&want, "%s/%s: %d %v\n", ctx, cls, k, vals)
		}
		tag := func(ctx string) string { return fmt.Sprintf("%q, %d", ctx+"/"+cls+":", k) }
		var evens []int
		sq := map[int]int{}
		for _, v := range seq {
			if v%2 == 0 {
				evens = append(evens, v)
			}
			sq[v] = v * v
		}
		if seq == nil {
			seq = []int{}
		}
		if evens == nil {
			evens = []int{}
		}
		fmt.Fprintf(&src, "// range %d: %s\n", k, rs)
		fmt.Fprintf(&src, "acc, n = nil, 0\nfor i <- %s {\n%s\tacc = append(acc, i)\n}\necho %s, acc\n", rs, guard, tag("for-arrow"))
		line("for-arrow", seq)
		fmt.Fprintf(&src, "acc, n = nil, 0\nfor i in %s {\n%s\tacc = append(acc, i)\n}\necho %s, acc\n", rs, guard, tag("for-in"))
		line("for-in", seq)
		fmt.Fprintf(&src, "acc, n = nil, 0\nfor i := range %s {\n%s\tacc = append(acc, i)\n}\necho %s, acc\n", rs, guard, tag("for-range-define"))
		line("for-range-define", seq)
		fmt.Fprintf(&src, "acc, n = nil, 0\nfor j = range %s {\n%s\tacc = append(acc, j)\n}\necho %s, acc\n", rs, guard, tag("for-range-assign"))
		line("for-range-assign", seq)
		fmt.Fprintf(&src, "cnt, n = 0, 0\nfor range %s {\n%s\tcnt++\n}\necho %s, cnt\n", rs, guard, tag("for-range-novar"))
		line("for-range-novar", len(seq))
		fmt.Fprintf(&src, "acc, calls = nil, 0\nfor i <- %s if fe(i) {\n\tif calls > 60 {\n\t\tacc = append(acc, 99999)\n\t\tbreak\n\t}\n\tacc = append(acc, i)\n}\necho %s, acc\n", rs, tag("for-arrow-filter"))
		line("for-arrow-filter", evens)
		fmt.Fprintf(&src, "echo %s, [i for i <- %s]\n", tag("list-comprehension"), rs)
		line("list-comprehension", seq)
		fmt.Fprintf(&src, "echo %s, [i for i <- %s if even(i)]\n", tag("list-comprehension-filter"), rs)
		line("list-comprehension-filter", evens)
		fmt.Fprintf(&src, "echo %s, {i: i*i for i <- %s}\n", tag("map-comprehension"), rs)
		line("map-comprehension", sq)
	}
	// the operands are evaluated once, before the first iteration (like the runtime range object of a comprehension):
	// a bound written len(x) / cap(x) must not follow x when the body changes it
	for k, form := range []string{"for i <- 0:len(grow@)", "for i := range :len(grow@)", "for i <- 1:len(grow@):len(two@)"} {
		form = strings.ReplaceAll(form, "@", fmt.Sprint(k))
		fmt.Fprintf(&src, "grow%d, two%d := [1, 2, 3], [0, 0]\n_ = two%d\nacc, n = nil, 0\n%s {\n\tn++\n\tif n > 60 {\n\t\tacc = append(acc, 99999)\n\t\tbreak\n\t}\n\tgrow%d <- 9\n\ttwo%d <- 9\n\tacc = append(acc, i)\n}\necho \"bound-evaluated-once/%d:\", acc\n", k, k, k, form, k, k, k)
		fmt.Fprintf(&want, "bound-evaluated-once/%d: %v\n", k, [][]int{{0, 1, 2}, {0, 1, 2}, {1}}[k])
	}
	// the same with operands that are variables, fields, elements and dereferences the body assigns to
	src.WriteString("type rbox struct{ n, step int }\n")
	for k, sc := range []struct{ decl, form, upd, want string }{
		{"nn@ := 4", "for i <- :nn@", "nn@--", "[0 1 2 3]"},
		{"bx@ := &rbox{n: 4, step: 1}", "for i <- :bx@.n", "bx@.n--", "[0 1 2 3]"},
		{"bx@ := &rbox{n: 4, step: 1}", "for i <- 0:6:bx@.step", "bx@.step++", "[0 1 2 3 4 5]"},
		{"ar@ := [4, 1]", "for i <- :ar@[0]", "ar@[0]--", "[0 1 2 3]"},
		{"st@ := 2", "for i <- 0:8:st@", "st@++", "[0 2 4 6]"},
		{"nn@ := 4", "for j = range :nn@", "nn@--\n\ti := j", "[0 1 2 3]"},
		{"bx@ := rbox{n: 5, step: 1}", "for i <- :bx@.n if i%2 == 0", "bx@.n--", "[0 2 4]"},
		{"pv@, pn@ := new(int), 3\n*pv@ = pn@", "for i in :*pv@", "*pv@ = 0", "[0 1 2]"},
	} {
		id := fmt.Sprint(k + 3)
		fmt.Fprintf(&src, "%s\nacc, n = nil, 0\n%s {\n\tn++\n\tif n > 60 {\n\t\tacc = append(acc, 99999)\n\t\tbreak\n\t}\n\t%s\n\tacc = append(acc, i)\n}\necho \"bound-evaluated-once/%s:\", acc\n",
			strings.ReplaceAll(sc.decl, "@", id), strings.ReplaceAll(sc.form, "@", id), strings.ReplaceAll(sc.upd, "@", id), id)
		fmt.Fprintf(&want, "bound-evaluated-once/%s: %s\n", id, sc.want)
	}
	r.Cover("bound-evaluated-once-scenarios")
	exp := want.String()
	return pairBuild{
		XGo:    map[string]string{"main.xgo": src.String()},
		Expect: &exp,
		Opts:   compileOpts{GenMain: true},
		Info:   map[string]string{"linetags": "1"},
	}
}

func (p *c04) PostRun(env *fw.Env, d *fw.Driver) {
	pairPostRun(env, d, p.Id, func(m progMeta, what string) string {
		return strings.Replace(what, "run:stdout-differs:", "range:", 1)
	})
}
