package checks

import (
	"fmt"
	goast "go/ast"
	goparser "go/parser"
	gotoken "go/token"
	"regexp"
	"strings"

	"github.com/goplus/xgo/parser"
	"github.com/goplus/xgo/token"

	"verif/corpus"
	"verif/fw"
	"verif/gen"
	"verif/oracle"
)

// C14 — valid Go files parse to the same syntax tree as with go/parser (reference implementation).
type c14 struct {
	Base
	files []corpus.File
}

func init() { fw.Register(&c14{Base: Base{Id: "C14", Lvl: "exploration"}}) }

func (p *c14) Setup(env *fw.Env) error {
	p.Env = env
	p.files = append(corpus.Go(env.Repo), corpus.GoRootFiles("fmt", "strings", "sort", "strconv", "bytes", "errors", "slices", "maps", "unicode/utf8", "path", "bufio", "container/list", "text/tabwriter", "encoding/json", "go/scanner", "go/token")...)
	p.N = len(p.files) + env.Pick(3000, 80000)
	p.RuleS = fmt.Sprintf("every .go file of the repository and of 16 standard-library packages of the installed toolchain (%d files; they type-check as part of their packages), then re-spaced variants of them (whitespace between tokens re-drawn, kept only if go/parser still yields the same tree) and generated Go files. Oracle: go/parser (ParseComments|SkipObjectResolution) defines acceptance and the reference tree; the XGo parser must accept the same bytes and produce a shape-equal tree (reflection comparator across go/ast and xgo/ast: same node types, identifiers, literals, operators; XGo-only fields must be zero). Non-trivial = file with >=50 nodes; distinct by source.", len(p.files))
	p.Assume = []string{"corpus files are taken to be well-typed (they build as part of the repository / standard library); generated Go files are only syntactically valid and are used for the tree comparison, not for the acceptance claim"}
	p.Floor = map[string]int{"#evaluations": p.N / 2, "#nontrivial": 300, "go-accepted": p.N / 4, "trees-equal": 300, "kind:corpus": 300, "kind:respace": 100, "kind:gen-go": 300}
	return nil
}

func (p *c14) Case(i int) fw.Case {
	if i < len(p.files) {
		return fw.Case{Kind: "corpus", P: map[string]string{"i": fmt.Sprint(i)}}
	}
	r := p.rnd(i)
	switch r.Intn(3) {
	case 0:
		return fw.Case{Kind: "gen-go", In: []byte((&gen.XSyn{R: r}).GoFile())}
	default:
		f := fw.Pick(r, p.files)
		src := f.Src
		if len(src) > 6000 {
			src = cutTopLevel(r, src, 6000)
		}
		return fw.Case{Kind: "respace", In: respaceGo(r, src), Aux: []string{string(src)}}
	}
}

// cutTopLevel keeps the package clause/imports and a window of whole top-level declarations.
func cutTopLevel(r *fw.Rand, src []byte, max int) []byte {
	fset := gotoken.NewFileSet()
	f, err := goparser.ParseFile(fset, "a.go", src, goparser.SkipObjectResolution)
	if err != nil || len(f.Decls) == 0 {
		return src
	}
	base := fset.File(f.Pos()).Base()
	head := int(f.Name.End()) - base
	var out []byte
	out = append(out, src[:head]...)
	out = append(out, '\n')
	start := r.Intn(len(f.Decls))
	for _, d := range f.Decls[start:] {
		lo, hi := int(d.Pos())-base, int(d.End())-base
		if gd, ok := d.(*goast.GenDecl); ok && gd.Tok == gotoken.IMPORT {
			continue
		}
		if len(out)+hi-lo > max && len(out) > head+1 {
			break
		}
		out = append(out, '\n')
		out = append(out, src[lo:hi]...)
		out = append(out, '\n')
	}
	return out
}

// respaceGo re-draws whitespace between Go tokens, including newlines where Go inserts no semicolon.
func respaceGo(r *fw.Rand, src []byte) []byte {
	toks := scanTokens(src, true)
	if len(toks) < 2 {
		return src
	}
	var b strings.Builder
	b.Write(src[:toks[0].off])
	for i, t := range toks {
		b.Write(src[t.off:t.end])
		if i+1 == len(toks) {
			b.Write(src[t.end:])
			break
		}
		gap := string(src[t.end:toks[i+1].off])
		// XGo's command-style syntax makes a few blanks significant by design (a blank between an operand and '(' or '[',
		// a blank before `<-`/unary operators that is not matched by one after them): those places keep their spelling
		if nx := src[toks[i+1].off]; (nx == '(' || nx == '[') && t.end > t.off {
			if c := src[t.end-1]; c == ')' || c == ']' || c == '}' || c == '_' || c >= '0' && c <= '9' || c >= 'a' && c <= 'z' || c >= 'A' && c <= 'Z' || c >= 0x80 || c == '"' || c == '`' || c == '\'' {
				b.WriteString(gap)
				continue
			}
		}
		if t.end-t.off <= 2 && strings.ContainsAny(string(src[t.off:t.end]), "<-+*&^!") && !strings.ContainsAny(string(src[t.off:t.end]), "=") {
			b.WriteString(gap) // after an operator that can be unary: keep
			continue
		}
		switch r.Intn(12) {
		case 0:
			if gap == " " {
				gap = ""
			}
		case 1:
			if gap == "" {
				gap = " "
			}
		case 2:
			if gap == " " {
				gap = "\n"
			}
		case 3:
			if gap == " " {
				gap = " /*c*/ "
			}
		case 4:
			if strings.Contains(gap, "\n") {
				gap = strings.ReplaceAll(gap, "\n", "\r\n")
			}
		case 5:
			if gap == " " {
				gap = "\t \t"
			}
		}
		b.WriteString(gap)
	}
	return []byte(b.String())
}

// c14Features finds Go constructs that XGo is known not to read like Go (used only to name the site of a failure).
func c14Features(f *goast.File) (generics, union, dollar, blankCall bool) {
	g, u, d, bc, _ := c14Features2(f)
	return g, u, d, bc
}

func c14Features2(f *goast.File) (generics, union, dollar, blankCall, blankIndex bool) {
	goast.Inspect(f, func(n goast.Node) bool {
		switch x := n.(type) {
		case *goast.FuncType:
			if x.TypeParams != nil {
				generics = true
			}
		case *goast.TypeSpec:
			if x.TypeParams != nil {
				generics = true
			}
		case *goast.IndexListExpr:
			generics = true
		case *goast.CallExpr:
			if x.Lparen != x.Fun.End() {
				blankCall = true // Go allows blanks between callee and '(' ; XGo reads a command-style call
			}
		case *goast.IndexExpr:
			if x.Lbrack != x.X.End() {
				blankIndex = true // `m [k] = v`: XGo reads the command-style call m([k] = v)
			}
		case *goast.SliceExpr:
			if x.Lbrack != x.X.End() {
				blankIndex = true
			}
		case *goast.UnaryExpr:
			if x.Op == gotoken.TILDE {
				union = true
			}
		case *goast.InterfaceType:
			for _, m := range x.Methods.List {
				if be, ok := m.Type.(*goast.BinaryExpr); ok && be.Op == gotoken.OR {
					union = true
				}
			}
		case *goast.BasicLit:
			if x.Kind == gotoken.STRING && strings.Contains(x.Value, "$") {
				dollar = true
			}
		}
		return true
	})
	return
}

// c14TightSend: a send statement written `ch <-v` (blank before the arrow, none after it). gofmt never writes it;
// XGo reads `ch <-v` as the command-style call ch(<-v), like `f -x` (whitespace decides, by design).
func c14TightSend(f *goast.File, fset *gotoken.FileSet, src []byte) bool {
	found := false
	goast.Inspect(f, func(n goast.Node) bool {
		if s, ok := n.(*goast.SendStmt); ok {
			a := fset.Position(s.Arrow).Offset
			if a > 0 && a+2 < len(src) && (src[a-1] == ' ' || src[a-1] == '\t') && src[a+2] != ' ' && src[a+2] != '\t' && src[a+2] != '\n' && src[a+2] != '\r' {
				found = true
			}
		}
		return true
	})
	return found
}

func c14Classify(f *goast.File, generic string) string {
	g, u, d, bc, bi := c14Features2(f)
	if bi && !u && !g && !d && !bc && (strings.HasPrefix(generic, "goparse:tree-differs") || strings.HasPrefix(generic, "goparse:rejected")) {
		return "goparse:index-with-blank-before-bracket"
	}
	if bc && strings.HasPrefix(generic, "goparse:tree-differs") && !u && !g && !d {
		return "goparse:tree-differs:call-with-blank-before-parenthesis"
	}
	switch {
	case u:
		return "goparse:go-feature:union-or-tilde-constraint"
	case g:
		return "goparse:go-feature:type-parameters"
	case d:
		return "goparse:go-feature:dollar-in-string-literal"
	}
	return generic
}

var reIdentish = regexp.MustCompile(`'[^']*'|"[^"]*"|[0-9]+`)

func (p *c14) Run(c fw.Case, r *fw.Rec) {
	src := c.In
	name := "a.go"
	if c.Kind == "corpus" {
		var i int
		fmt.Sscan(c.P["i"], &i)
		src = p.files[i].Src
		name = p.files[i].Path
	}
	gfset := gotoken.NewFileSet()
	gf, gerr := goparser.ParseFile(gfset, "a.go", src, goparser.ParseComments|goparser.SkipObjectResolution)
	if gerr != nil {
		r.Skip("go/parser-rejects")
		return
	}
	if c.Kind == "respace" {
		// keep only variants that are the same Go program
		gf0, err0 := goparser.ParseFile(gotoken.NewFileSet(), "a.go", c.Aux[0], goparser.SkipObjectResolution)
		if err0 != nil || oracle.ShapeDiff(gf0, gf, oracle.ShapeOpts{}) != "" {
			r.Skip("respaced-variant-is-a-different-go-program")
			return
		}
	}
	r.Cover("go-accepted")
	r.Cover("kind:" + c.Kind)
	xf, _, xerr, pk := safeParse(srcItem{Name: "a.go", Src: src}, parser.ParseComments)
	if pk != nil {
		r.Fail("goparse:panic:"+fw.SiteFromPanic(pk, stackOf()), "XGo parser panicked on a Go file go/parser accepts (%s): %v", name, pk)
		return
	}
	if xerr != nil {
		msg := xerr.Error()
		if i := strings.Index(msg, " (and "); i > 0 {
			msg = msg[:i]
		}
		if i := strings.Index(msg, ": "); i > 0 {
			msg = msg[i+2:]
		}
		cls := reIdentish.ReplaceAllString(msg, "_")
		if len(cls) > 70 {
			cls = cls[:70]
		}
		r.Fail(c14Classify(gf, "goparse:rejected:"+cls), "XGo parser rejects %s, which go/parser accepts: %v", name, xerr)
		return
	}
	if d := oracle.ShapeDiff(gf, xf, oracle.ShapeOpts{IgnoreFields: map[string]bool{"NoParenEnd": true, "Incomplete": true, "File.Package": true}}); d != "" {
		site := "goparse:tree-differs:" + c14Site(d)
		if strings.Contains(d, "vs ParenExpr") && regexp.MustCompile(`\.Args\[\d+\]: `).MatchString(d) {
			site = "goparse:tree-differs:call-with-blank-before-parenthesis"
		}
		if strings.Contains(d, "SendStmt vs ExprStmt") && c14TightSend(gf, gfset, src) {
			site = "goparse:tree-differs:send-with-blank-before-arrow-only"
		}
		r.Fail(c14Classify(gf, site), "tree of %s differs from go/parser's: %s\n%s", name, d, c14Context(gfset, gf, d, src))
		return
	}
	r.Cover("trees-equal")
	if oracle.CountNodes(gf, nil) >= 50 {
		r.NonTrivial()
		if c.Kind != "corpus" && len(src) < 300 {
			r.Sample(string(src))
		}
	} else if c.Kind == "corpus" {
		r.NonTrivial()
	}
	if c.Kind == "corpus" {
		r.Sample(name)
	}
	_ = token.NoPos
}

// c14Site: last field names of the diff path plus the node types involved.
func c14Site(d string) string {
	path, detail := d, ""
	if i := strings.Index(d, ": "); i > 0 {
		path, detail = d[:i], d[i+2:]
	}
	detail = reIdentish.ReplaceAllString(detail, "_")
	detail = regexp.MustCompile(`\((\w+):[^)]*\)`).ReplaceAllString(detail, "($1)")
	if strings.HasPrefix(detail, "node type ") || strings.HasPrefix(detail, "nil vs") || strings.HasPrefix(detail, "length") || strings.Contains(detail, "field only") {
		if len(detail) > 60 {
			detail = detail[:60]
		}
	} else {
		detail = "value"
	}
	return shapeSite(path+":") + ":" + detail
}

func c14Context(fset *gotoken.FileSet, f *goast.File, d string, src []byte) string { return "" }
