package checks

// c17Exempt lists (rule:node-kind…) keys that go/ast itself violates on go/parser trees of the repository's Go
// files and of generated Go files (calibration: VERIF_C17_CALIBRATE=1 ./check C17 quick). They are conventions
// inherited from go/ast, not XGo defects. Frozen: extend only after re-running the calibration.
var c17Exempt = map[string]bool{
	// FuncDecl.Type.Pos() is the "func" keyword, which precedes the receiver and the name (25243 hits in calibration)
	"R4:FuncDecl:Ident,FuncType": true,
	// a label directly before '}' labels an implicit empty statement whose End is the position of '}' (go/ast: 160 hits
	// on the hand-written calibration snippet `L: }`)
	"R2:LabeledStmt": true,
}
