package checks

import (
	"fmt"
	"go/ast"
	"go/parser"
	"go/token"
	"go/types"
	"os"
	"regexp"
	"sort"
	"strings"

	"verif/fw"
)

// pairBuild describes one differential experiment: an XGo package and what it is compared with.
type pairBuild struct {
	Ref       map[string]string // Go files of the reference main package (nil: Expect or SelfCheck)
	XGo       map[string]string // files of the XGo main package (.xgo/.gox/.go)
	Expect    *string           // expected stdout when there is no reference program
	SelfCheck bool              // the program checks itself: stdout must end with DONE and hold no MISMATCH line
	Opts      compileOpts
	Info      map[string]string           // carried to the comparison (feature tags for site naming)
	CheckOut  func(out []byte, r *fw.Rec) // optional static judgement of the written Go source
}

// goTypeCheck type-checks Go files (name -> source) as one package with go/types; imports are resolved from
// the same export data the XGo importer uses.
func goTypeCheck(repo string, files map[string]string) error {
	xgocInit(repo)
	fset := token.NewFileSet()
	var fs []*ast.File
	names := make([]string, 0, len(files))
	for n := range files {
		names = append(names, n)
	}
	sort.Strings(names)
	for _, n := range names {
		f, err := parser.ParseFile(fset, n, files[n], parser.SkipObjectResolution)
		if err != nil {
			return err
		}
		fs = append(fs, f)
	}
	conf := types.Config{Importer: xgocImp}
	_, err := conf.Check("main", fset, fs, nil)
	return err
}

var (
	reErrLoc   = regexp.MustCompile(`^\S*?:\d+:\d+: `)
	reQuoted   = regexp.MustCompile("\"[^\"]*\"|`[^`]*`")
	reIdentNum = regexp.MustCompile(`\b[a-zA-Z_]*\d+\b`)
)

// errSig turns a compiler message into a site signature (positions, quoted text and numbered names removed).
func errSig(msg string) string {
	msg = reErrLoc.ReplaceAllString(msg, "")
	if i := strings.IndexByte(msg, '\n'); i >= 0 {
		msg = msg[:i]
	}
	msg = reQuoted.ReplaceAllString(msg, "Q")
	msg = reIdentNum.ReplaceAllString(msg, "N")
	msg = strings.Join(strings.Fields(msg), "-")
	if len(msg) > 90 {
		msg = msg[:90]
	}
	return msg
}

// pairWorker is the worker half: compile the XGo package in-process, leave both packages in the scratch module.
// It returns false when the case ended here (skip or violation).
func pairWorker(env *fw.Env, id string, c fw.Case, r *fw.Rec, pb pairBuild) bool {
	if os.Getenv("VERIF_KEEP") != "" {
		progWrite(env, fmt.Sprintf("../src/%s_%06d", strings.ToLower(id), c.Idx), pb.XGo)
	}
	res := compileXGo(env.Repo, pb.XGo, pb.Opts)
	site := func(what string) string { return pairSite(pb.Info, what) }
	if res.Panic != nil {
		r.Fail(site("compile:panic:"+fw.SiteFromPanic(res.Panic, []byte(res.Stack))), "the XGo compiler panicked: %v\n%s", res.Panic, firstN(res.Stack, 25))
		return false
	}
	if res.ParseErr != nil {
		r.Fail(site("compile:parse-error:"+errSig(res.ParseErr.Error())), "the XGo parser rejects the program: %v", clipS(res.ParseErr.Error(), 600))
		return false
	}
	if res.Err != nil {
		r.Fail(site("compile:error:"+errSig(res.ErrList[0])), "the XGo compiler rejects the program: %s", clipS(strings.Join(res.ErrList, "\n"), 800))
		return false
	}
	r.Cover("xgo-compiled")
	if pb.CheckOut != nil {
		pb.CheckOut(res.Out, r)
		if r.Failed() {
			return false
		}
	}
	base := fmt.Sprintf("%s_%06d", strings.ToLower(id), c.Idx)
	m := progMeta{Idx: c.Idx, Case: c, Info: pb.Info}
	xfiles := map[string]string{"xgo_autogen.go": string(res.Out)}
	for n, s := range pb.XGo {
		if strings.HasSuffix(n, ".go") {
			xfiles[n] = s
		}
	}
	if err := progWrite(env, base+"x", xfiles); err != nil {
		r.Inconclusive("scratch write: " + err.Error())
		return false
	}
	m.Pkgs = append(m.Pkgs, base+"x")
	if pb.Ref != nil {
		if err := progWrite(env, base+"r", pb.Ref); err != nil {
			r.Inconclusive("scratch write: " + err.Error())
			return false
		}
		m.Pkgs = append(m.Pkgs, base+"r")
	}
	if pb.Expect != nil {
		m.Expect = "=" + *pb.Expect
	}
	if pb.SelfCheck {
		m.Expect = "selfcheck"
	}
	m.Sources = map[string]string{"xgo_autogen.go": string(res.Out)}
	progWriteMeta(env, m)
	return true
}

// pairPostRun is the driver half: one go build for everything, run every binary, compare.
// classify names the violation site from the meta and the two results.
func pairPostRun(env *fw.Env, d *fw.Driver, id string, classify func(m progMeta, what string) string) {
	metas := progReadMetas(env)
	if len(metas) == 0 {
		return
	}
	failed, err := progBuildAll(env)
	if err != nil {
		d.Inconclusive(err.Error())
		return
	}
	var names []string
	for _, m := range metas {
		for _, p := range m.Pkgs {
			if _, bad := failed[p]; !bad {
				names = append(names, p)
			}
		}
	}
	results := progRunAll(env, names)
	agg := &fw.Agg{Cover: map[string]int{}}
	fail := func(m progMeta, what, format string, args ...any) {
		site := pairSite(m.Info, what)
		if classify != nil {
			site = classify(m, site)
		}
		d.AddViolation(fw.Violation{Idx: m.Idx, Site: site, Msg: fmt.Sprintf(format, args...), Case: m.Case})
	}
	for _, m := range metas {
		x := m.Pkgs[0]
		if msg, bad := failed[x]; bad {
			fail(m, "build:go-rejects-output:"+buildErrSig(msg, m.Sources["xgo_autogen.go"]), "the Go toolchain rejects the compiler's output:\n%s\n--- generated Go ---\n%s", clipS(msg, 1200), clipS(m.Sources["xgo_autogen.go"], 3000))
			continue
		}
		agg.Cover["xgo-output-built"]++
		got := results[x]
		if got.TimedOut {
			d.Inconclusive(fmt.Sprintf("case %d: program %s hit the wall-clock watchdog", m.Idx, x))
			continue
		}
		switch {
		case len(m.Pkgs) > 1:
			rname := m.Pkgs[1]
			if msg, bad := failed[rname]; bad {
				d.Inconclusive(fmt.Sprintf("case %d: reference program does not build: %s", m.Idx, clipS(msg, 300)))
				continue
			}
			ref := results[rname]
			if ref.TimedOut {
				d.Inconclusive(fmt.Sprintf("case %d: reference program hit the wall-clock watchdog", m.Idx))
				continue
			}
			agg.Cover["pairs-executed"]++
			agg.Cover[fmt.Sprintf("exit-status:%d", ref.Code)]++
			agg.Cover["stdout-lines-compared"] += strings.Count(ref.Stdout, "\n")
			if ref.PanicLine() != "" {
				agg.Cover["reference-ends-in-panic"]++
			}
			switch {
			case ref.Stdout != got.Stdout:
				fail(m, "run:stdout-differs"+diffTag(m, ref.Stdout, got.Stdout), "stdout differs at %s", firstDiffLine(ref.Stdout, got.Stdout))
			case ref.Code != got.Code:
				fail(m, "run:exit-status-differs", "exit status: reference %d, xgo %d\nreference stderr: %s\nxgo stderr: %s", ref.Code, got.Code, clipS(ref.Stderr, 400), clipS(got.Stderr, 400))
			case ref.PanicLine() != got.PanicLine():
				fail(m, "run:panic-value-differs", "panic: reference %q, xgo %q", ref.PanicLine(), got.PanicLine())
			default:
				agg.NonTriv++
				d.AddHash(m.Case.Hash() ^ uint64(m.Idx)<<32 ^ fw.HashString(m.Sources["xgo_autogen.go"]))
			}
		case strings.HasPrefix(m.Expect, "="):
			agg.Cover["programs-executed"]++
			want := m.Expect[1:]
			agg.Cover["stdout-lines-compared"] += strings.Count(want, "\n")
			if tags := diffTags(m, want, got.Stdout); len(tags) > 0 && got.Code == 0 {
				for _, t := range tags {
					fail(m, "run:stdout-differs:"+t.tag, "line %d differs from the model:\n  expected: %s\n  got     : %s", t.line, clipS(t.want, 300), clipS(t.got, 300))
				}
			} else if got.Stdout != want {
				fail(m, "run:stdout-differs"+diffTag(m, want, got.Stdout), "stdout differs from the expected text at %s\nstderr: %s", firstDiffLine(want, got.Stdout), clipS(got.Stderr, 400))
			} else if got.Code != 0 {
				fail(m, "run:exit-status", "exit status %d, stderr: %s", got.Code, clipS(got.Stderr, 600))
			} else {
				agg.NonTriv++
				d.AddHash(m.Case.Hash() ^ uint64(m.Idx)<<32 ^ fw.HashString(m.Sources["xgo_autogen.go"]))
			}
		case m.Expect == "selfcheck":
			agg.Cover["programs-executed"]++
			if i := strings.LastIndex(got.Stdout, "\nOK "); i >= 0 {
				var n int
				fmt.Sscan(got.Stdout[i+4:], &n)
				agg.Cover["self-checks-passed"] += n
			}
			if i := strings.Index(got.Stdout, "MISMATCH"); i >= 0 {
				ln := got.Stdout[i:]
				if j := strings.IndexByte(ln, '\n'); j >= 0 {
					ln = ln[:j]
				}
				site := "run:self-check-mismatch"
				if f := strings.Fields(ln); len(f) > 1 {
					site += ":" + strings.TrimSuffix(f[1], ":")
				}
				fail(m, site, "%s", clipS(ln, 600))
			} else if !strings.HasSuffix(strings.TrimSpace(got.Stdout), "DONE") || got.Code != 0 {
				fail(m, "run:did-not-finish", "exit status %d; stdout tail: %s\nstderr: %s", got.Code, clipS(tailS(got.Stdout, 300), 300), clipS(got.Stderr, 600))
			} else {
				agg.NonTriv++
				d.AddHash(m.Case.Hash() ^ uint64(m.Idx)<<32 ^ fw.HashString(m.Sources["xgo_autogen.go"]))
			}
		}
	}
	d.AddAgg(agg)
}

func firstBuildErr(msg string) string {
	for _, ln := range strings.Split(msg, "\n") {
		if strings.HasPrefix(ln, "#") || strings.TrimSpace(ln) == "" {
			continue
		}
		// progs/x/xgo_autogen.go:12:3: message
		if i := strings.Index(ln, ".go:"); i >= 0 {
			rest := ln[i+4:]
			parts := strings.SplitN(rest, ": ", 2)
			if len(parts) == 2 {
				return parts[1]
			}
		}
		return ln
	}
	return msg
}

func tailS(s string, n int) string {
	if len(s) > n {
		return s[len(s)-n:]
	}
	return s
}

var (
	reBuildLoc  = regexp.MustCompile(`xgo_autogen\.go:(\d+):(\d+): `)
	reHdrLit    = regexp.MustCompile(`^\s*(?:\} else )?(for|if|switch)\b.*[\w\]]\{.*\{$`)
	reHdrClause = regexp.MustCompile(`^\s*(?:\} else )?(for|if|switch)\b`)
)

// buildErrSig names the site of a Go build failure: syntax errors on a statement header that holds a composite
// literal are the one recognisable family (the output lacks the parentheses Go requires there).
func buildErrSig(msg, out string) string {
	if m := reBuildLoc.FindStringSubmatch(msg); m != nil && strings.Contains(firstBuildErr(msg), "syntax error") {
		var ln int
		fmt.Sscan(m[1], &ln)
		lines := strings.Split(out, "\n")
		if ln >= 1 && ln <= len(lines) && reHdrLit.MatchString(lines[ln-1]) {
			return "composite-literal-unparenthesised-in-" + reHdrClause.FindStringSubmatch(lines[ln-1])[1] + "-header"
		}
	}
	return errSig(firstBuildErr(msg))
}

// pairSite: experiments that probe one named construct (Info["probe"]) name their sites after it, keeping only the
// stage (compile / build / run) of the generic signature.
func pairSite(info map[string]string, what string) string {
	if id := info["probe"]; id != "" {
		parts := strings.SplitN(what, ":", 3)
		if len(parts) >= 2 {
			what = parts[0] + ":" + parts[1]
		}
		return "probe:" + id + ":" + what
	}
	return what
}

// diffTag: programs whose output lines start with "<tag>: " (Info["linetags"]) name the violation site after the
// tag of the first line that differs.
func diffTag(m progMeta, want, got string) string {
	if m.Info["linetags"] == "" {
		return ""
	}
	lw, lg := strings.Split(want, "\n"), strings.Split(got, "\n")
	for i := 0; i < len(lw) || i < len(lg); i++ {
		var x, y string
		if i < len(lw) {
			x = lw[i]
		}
		if i < len(lg) {
			y = lg[i]
		}
		if x != y {
			if x == "" {
				x = y
			}
			if j := strings.Index(x, ": "); j > 0 && j < 80 {
				return ":" + x[:j]
			}
			return ":untagged-line"
		}
	}
	return ""
}

type tagDiff struct {
	tag, want, got string
	line           int
}

// diffTags compares tagged outputs line by line (same number of lines required) and returns the first
// difference of every distinct tag.
func diffTags(m progMeta, want, got string) []tagDiff {
	if m.Info["linetags"] == "" {
		return nil
	}
	lw, lg := strings.Split(want, "\n"), strings.Split(got, "\n")
	if len(lw) != len(lg) {
		return nil
	}
	var out []tagDiff
	seen := map[string]bool{}
	for i := range lw {
		if lw[i] != lg[i] {
			tag := "untagged-line"
			if j := strings.Index(lw[i], ": "); j > 0 && j < 80 {
				tag = lw[i][:j]
			}
			if !seen[tag] {
				seen[tag] = true
				out = append(out, tagDiff{tag, lw[i], lg[i], i + 1})
			}
		}
	}
	return out
}
