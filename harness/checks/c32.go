package checks

import (
	"fmt"
	gotoken "go/token"

	"github.com/goplus/xgo/scanner"
	"github.com/goplus/xgo/token"
	tplscanner "github.com/goplus/xgo/tpl/scanner"
	tpltoken "github.com/goplus/xgo/tpl/token"

	"verif/corpus"
	"verif/fw"
	"verif/gen"
)

// C32 — the TPL scanner tokenises like the XGo scanner on shared lexemes.
type c32 struct {
	Base
	files []corpus.File
	nExh  int
}

func init() { fw.Register(&c32{Base: Base{Id: "C32", Lvl: "exploration"}}) }

const c32Alpha = "a1.\"'`/*#\n\r \\xe+-=<>!?:(){r$~"

func (p *c32) Setup(env *fw.Env) error {
	p.Env = env
	p.files = corpus.XGo(env.Repo)
	p.nExh = gen.CountStrings(len(c32Alpha), env.Pick(3, 4))
	p.N = p.nExh + env.Pick(80000, 3000000)
	p.RuleS = fmt.Sprintf("(a) all strings of length<=%d over %q, (b) lexeme streams over the lexeme tables with comment/CR/newline separators, (c) byte-mutated windows of repository XGo files; both comment modes. Out of domain (decided on the XGo scanner's result): inputs where XGo sees a keyword, c\"…\"/py\"…\", '@', or two adjacent '*' (TPL-only '**'). Non-trivial = in-domain with >=2 tokens.", env.Pick(3, 4), c32Alpha)
	p.Assume = []string{"the XGo scanner is the reference for shared lexemes (it is itself checked against go/scanner in C16)"}
	p.Floor = map[string]int{"#evaluations": p.N / 2, "#nontrivial": 15000, "in-domain": p.N / 5}
	for _, k := range []string{"IDENT", "INT", "FLOAT", "IMAG", "CHAR", "STRING", "COMMENT", "RAT", "UNIT", ";auto", "=>", "->", "<>", "?", "$", "...", "sharp-comment", "comment-with-CR"} {
		p.Floor["x:"+k] = 5
	}
	return nil
}

func (p *c32) Case(i int) fw.Case {
	if i < p.nExh {
		return fw.Case{Kind: "exh", In: []byte(gen.NthString(c32Alpha, i))}
	}
	r := p.rnd(i)
	switch r.Intn(10) {
	case 0, 1, 2, 3, 4, 5:
		return fw.Case{Kind: "lex", In: []byte(gen.LexStream(r, r.Range(1, 12), false, true))}
	default:
		f := fw.Pick(r, p.files)
		w := gen.Window(r, f.Src, 200)
		return fw.Case{Kind: "mut", In: gen.Mutate(r, w, nil, 3)}
	}
}

func (p *c32) Run(c fw.Case, r *fw.Rec) {
	src := c.In
	for _, withComments := range []bool{false, true} {
		fset := token.NewFileSet()
		file := fset.AddFile("a.xgo", -1, len(src))
		var s scanner.Scanner
		var xerrs []int
		var xt []ltok
		mode := scanner.Mode(0)
		if withComments {
			mode = scanner.ScanComments
		}
		inDomain, why := true, ""
		prevMulEnd := -1
		if fw.Guard(r, "scanner.Scan", func() {
			s.Init(file, src, func(pos token.Position, msg string) { xerrs = append(xerrs, pos.Offset) }, mode)
			for n := 0; n < len(src)*2+8; n++ {
				pos, tok, lit := s.Scan()
				off := int(pos) - file.Base()
				name := tok.String()
				if tok == token.SEMICOLON && lit == "\n" {
					name = ";auto"
				}
				switch {
				case tok.IsKeyword():
					inDomain, why = false, "keyword"
				case tok == token.CSTRING || tok == token.PYSTRING:
					inDomain, why = false, "cstring"
				case tok == token.ILLEGAL && lit == "@":
					inDomain, why = false, "tpl-only-@"
				}
				if (tok == token.MUL || tok == token.MUL_ASSIGN) && off == prevMulEnd {
					inDomain, why = false, "tpl-only-**"
				}
				if tok == token.MUL {
					prevMulEnd = off + 1
				} else {
					prevMulEnd = -1
				}
				xt = append(xt, ltok{name, off, lit})
				if tok == token.EOF {
					break
				}
			}
		}) {
			return
		}
		if !inDomain {
			r.Skip("out-of-domain:" + why)
			return
		}
		gfset := gotoken.NewFileSet()
		gfile := gfset.AddFile("a.tpl", -1, len(src))
		var ts tplscanner.Scanner
		var terrs []int
		var tt []ltok
		tmode := tplscanner.Mode(0)
		if withComments {
			tmode = tplscanner.ScanComments
		}
		if fw.Guard(r, "tpl/scanner.Scan", func() {
			ts.Init(gfile, src, func(pos gotoken.Position, msg string) { terrs = append(terrs, pos.Offset) }, tmode)
			for n := 0; n < len(src)*2+8; n++ {
				tk := ts.Scan()
				name := tk.Tok.String()
				if tk.Tok == tpltoken.SEMICOLON && tk.Lit == "\n" {
					name = ";auto"
				}
				tt = append(tt, ltok{name, int(tk.Pos) - gfile.Base(), tk.Lit})
				if tk.Tok == tpltoken.EOF {
					break
				}
			}
		}) {
			return
		}
		r.Cover("in-domain")
		for _, t := range xt {
			r.Cover("x:" + t.name)
			if t.name == "COMMENT" && len(t.lit) > 0 && t.lit[0] == '#' {
				r.Cover("x:sharp-comment")
			}
			if t.name == "COMMENT" && t.off+len(t.lit) <= len(src) && string(src[t.off:t.off+len(t.lit)]) != t.lit {
				r.Cover("x:comment-with-CR")
			}
		}
		for k := 0; k < len(xt) || k < len(tt); k++ {
			var x, t ltok
			x.name, t.name = "<none>", "<none>"
			if k < len(xt) {
				x = xt[k]
			}
			if k < len(tt) {
				t = tt[k]
			}
			if x == t {
				continue
			}
			var site string
			switch {
			case x.name != t.name:
				site = "diff:kind:xgo=" + x.name + ":tpl=" + t.name
			case x.off != t.off:
				site = "diff:offset:" + x.name
			default:
				site = "diff:literal:" + x.name
			}
			r.Fail(site, "comments=%v token #%d differs: xgo=(%s,%d,%q) tpl=(%s,%d,%q)", withComments, k, x.name, x.off, x.lit, t.name, t.off, t.lit)
			return
		}
		// error reports are not part of the property (token boundaries, literals, inserted semicolons):
		// the two scanners legitimately differ in //line directive diagnostics.
		_, _ = xerrs, terrs
		if len(xt) >= 3 {
			r.NonTrivial()
			if c.Kind == "lex" {
				r.Sample(fw.Quote(src, 80))
			}
		}
	}
}
