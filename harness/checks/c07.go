package checks

import (
	"fmt"
	"regexp"
	"strconv"
	"strings"

	"github.com/goplus/xgo/x/build"

	"verif/fw"
	"verif/gen"
)

// C07 — the compiler never crashes or hangs on parseable input (robustness monitor).
type c07 struct {
	Base
	pool []srcItem
}

func init() { fw.Register(&c07{Base: Base{Id: "C07", Lvl: "exploration"}}) }

func (p *c07) Setup(env *fw.Env) error {
	p.Env = env
	xgocWarm(env)
	p.pool = xgoPool(env)
	p.N = len(p.pool) + env.Pick(1500, 120000)
	p.RuleS = fmt.Sprintf("every repository XGo/class file and harvested test snippet (%d) as a single-file package, then generated XGo / class / Go files (syntactic generator, mostly ill-typed), token- and byte-mutated variants of corpus and generated sources (the parser's partial ASTs are compiled too), multi-file packages (2-3 files, XGo + class + Go mixes, duplicate declarations across files), each through cl.NewPackage+WriteTo or through x/build BuildFile/BuildFSDir. Oracle: no panic or runtime fatal error escapes; the cl step hook (compileStmt/compileExpr/typeLoader.load) stays below 200*(tokens)+10^5; every reported error whose text carries file:line:col names a file of the package and a line/column inside it. Non-trivial = the package reached cl.NewPackage; distinct by sources.", len(p.pool))
	p.Assume = []string{"recover stays enabled (the production default)", "a loop inside gogen that never reaches a cl hook would only trip the wall-clock watchdog (inconclusive)", "errors without a position are ignored for the position check"}
	p.Floor = map[string]int{"#evaluations": p.N / 2, "#nontrivial": p.N / 3, "reached-cl": p.N / 3, "outcome:ok": 300, "outcome:errors": p.N / 4, "via:x/build": p.N / 30, "with-recorder": p.N / 6, "kind:decl-shapes": p.N / 40, "kind:decl-cycles": p.N / 40, "kind:multi": p.N / 30, "error-positions-checked": p.N / 4, "parse-error-but-compiled": p.N / 50}
	return nil
}

func (p *c07) Case(i int) fw.Case {
	if i < len(p.pool) {
		rec := ""
		if i%3 == 0 {
			rec = "1"
		}
		return fw.Case{Kind: "corpus", P: map[string]string{"i": fmt.Sprint(i), "rec": rec}}
	}
	r := p.rnd(i)
	g := &gen.XSyn{R: r}
	via := "cl"
	if r.Chance(1, 4) {
		via = "build"
	}
	one := func() (string, string) {
		switch r.Intn(8) {
		case 0:
			return "b.gox", g.File(true)
		case 1:
			return "c.go", g.GoFile()
		case 2, 3:
			it := fw.Pick(r, p.pool)
			name := "d.xgo"
			if it.Class {
				name = "d.gox"
			}
			return name, string(it.Src)
		default:
			return "a.xgo", g.File(false)
		}
	}
	rec := ""
	if r.Chance(1, 3) {
		rec = "1"
	}
	if r.Chance(1, 14) {
		return fw.Case{Kind: "decl-cycles", Aux: []string{"a.xgo", c07DeclCycles(r)}, P: map[string]string{"via": via, "rec": rec}}
	}
	if r.Chance(1, 12) {
		return fw.Case{Kind: "decl-shapes", Aux: []string{"a.xgo", c07DeclShapes(r)}, P: map[string]string{"via": "cl", "rec": rec}}
	}
	switch k := r.Intn(10); {
	case k < 3:
		n, s := one()
		return fw.Case{Kind: "gen", Aux: []string{n, s}, P: map[string]string{"via": via, "rec": rec}}
	case k < 6:
		n, s := one()
		return fw.Case{Kind: "tokmut", Aux: []string{n, string(tokenMutate(r, []byte(s), 3))}, P: map[string]string{"via": via, "rec": rec}}
	case k < 7:
		n, s := one()
		return fw.Case{Kind: "bytemut", Aux: []string{n, string(gen.Mutate(r, []byte(s), nil, 3))}, P: map[string]string{"via": via}}
	default:
		var aux []string
		seen := map[string]bool{}
		for j := r.Range(2, 3); j > 0; j-- {
			n, s := one()
			for seen[n] {
				n = "x" + n
			}
			seen[n] = true
			if r.Chance(1, 4) {
				s = string(tokenMutate(r, []byte(s), 2))
			}
			aux = append(aux, n, s)
		}
		return fw.Case{Kind: "multi", Aux: aux, P: map[string]string{"via": "cl", "rec": rec}}
	}
}

var reErrPos = regexp.MustCompile(`^(.+?):(\d+):(\d+): `)

func (p *c07) Run(c fw.Case, r *fw.Rec) {
	files := map[string]string{}
	if c.Kind == "corpus" {
		var i int
		fmt.Sscan(c.P["i"], &i)
		it := p.pool[i]
		name := "a.xgo"
		if it.Class {
			name = "a.gox"
			if strings.HasSuffix(it.Name, ".tspx") || strings.HasSuffix(it.Name, ".tgmx") {
				name = "a" + it.Name[strings.LastIndex(it.Name, "."):]
			}
		}
		files[name] = string(it.Src)
	} else {
		for k := 0; k+1 < len(c.Aux); k += 2 {
			files[c.Aux[k]] = c.Aux[k+1]
		}
	}
	ntok := 0
	for _, s := range files {
		ntok += len(scanTokens([]byte(s), false)) + 1
	}
	budget := int64(200*ntok + 100000)
	r.Cover("kind:" + c.Kind)
	if c.P["via"] == "build" && len(files) == 1 {
		r.Cover("via:x/build")
		xgocInit(p.Env.Repo)
		ctx := build.NewContext(xgocImp, xgocFset)
		for n, s := range files {
			var err error
			if fw.Guard(r, "x/build.BuildFile", func() { _, err = ctx.BuildFile("/p/"+n, s) }) {
				return
			}
			if err == nil {
				r.Cover("outcome:ok")
			} else {
				r.Cover("outcome:errors")
			}
			r.Cover("reached-cl")
			r.NonTrivial()
		}
		return
	}
	if c.P["rec"] != "" {
		r.Cover("with-recorder")
	}
	res := compileXGo(p.Env.Repo, files, compileOpts{Budget: budget, GenMain: true, Recorder: c.P["rec"] != ""})
	if res.Panic != nil {
		r.Fail("cl:"+fw.SiteFromPanic(res.Panic, []byte(res.Stack)), "panic escaped the compiler: %v\n%s", res.Panic, firstN(res.Stack, 30))
		return
	}
	if !res.Parsed {
		r.Skip("parser-returned-no-package")
		return
	}
	r.Cover("reached-cl")
	r.NonTrivial()
	if res.ParseErr != nil {
		r.Cover("parse-error-but-compiled")
	}
	if res.Steps > budget {
		r.Fail("cl:step-budget-exceeded", "cl took %d steps for %d tokens (budget %d): non-termination or blow-up", res.Steps, ntok, budget)
		return
	}
	if res.Err == nil {
		r.Cover("outcome:ok")
		return
	}
	r.Cover("outcome:errors")
	for _, s := range files {
		if strings.Contains(s, "//line ") || strings.Contains(s, "/*line ") {
			return // line directives legitimately remap positions to other files
		}
	}
	for _, e := range res.ErrList {
		if i := strings.IndexByte(e, '\n'); i >= 0 {
			e = e[:i] // only the head line of an entry carries its position; later lines may quote source text
		}
		m := reErrPos.FindStringSubmatch(e)
		if m == nil || strings.ContainsAny(m[1], " \t`\"") || !strings.Contains(m[1], ".") {
			continue // not a file:line:col prefix (e.g. a line of source text quoted inside a multi-line message)
		}
		r.Cover("error-positions-checked")
		fname := strings.TrimPrefix(m[1], "/p/")
		src, ok := files[fname]
		if !ok {
			src, ok = files[strings.TrimPrefix(fname, "./")]
		}
		if !ok {
			r.Fail("cl:error-position-in-unknown-file", "error %q names file %q which is not part of the compiled package %v", clipS(e, 200), m[1], keysOf(files))
			return
		}
		line, _ := strconv.Atoi(m[2])
		col, _ := strconv.Atoi(m[3])
		lines := strings.Split(src, "\n")
		if line < 1 || line > len(lines) {
			r.Fail("cl:error-line-outside-file", "error %q: line %d is outside %s (%d lines)", clipS(e, 200), line, fname, len(lines))
			return
		}
		if col < 1 || col > len(lines[line-1])+2 {
			r.Fail("cl:error-column-outside-line", "error %q: column %d is outside line %d of %s (%d bytes)", clipS(e, 200), col, line, fname, len(lines[line-1]))
			return
		}
	}
	if len(res.ErrList) > 0 {
		r.DistinctKey(fmt.Sprint(files))
	}
}

func keysOf(m map[string]string) []string {
	var ks []string
	for k := range m {
		ks = append(ks, k)
	}
	sortStrings(ks)
	return ks
}

func firstN(s string, n int) string {
	ls := strings.SplitN(s, "\n", n+1)
	if len(ls) > n {
		ls = ls[:n]
	}
	return strings.Join(ls, "\n")
}

// c07DeclShapes draws a file of unusual but parseable declaration shapes: overload declarations with every
// receiver spelling (none, empty, value, pointer, named) over identifier and operator names with empty, identifier,
// method-expression and literal candidate lists; methods with empty or multiple receivers; declarations without
// names; labels on declarations.
func c07DeclShapes(r *fw.Rand) string {
	var b strings.Builder
	b.WriteString("type T struct{ n int }\n\nfunc bar(a int) int { return a }\n\nfunc (t *T) m(a int) int { return a }\n\n")
	recvs := []string{"", "()", "(T)", "(*T)", "(t T)", "(T, T)", "(_)", "(*)"}
	names := []string{"foo", "+", "-", "*", "==", "++", "<-", "_"}
	cands := []string{"()", "(bar)", "(bar; bar)", "((T).m)", "((T).m; bar)", "(func(a int) {}; func(a string) {})", "(func() {})", "(nosuch)", "((T).nosuch)", "((nosuch).m)", "(bar\n(T).m\n)"}
	for i := 0; i < r.Range(1, 5); i++ {
		rc := fw.Pick(r, recvs)
		if rc == "" {
			fmt.Fprintf(&b, "func %s = %s\n\n", fw.Pick(r, names), fw.Pick(r, cands))
		} else {
			fmt.Fprintf(&b, "func %s.%s = %s\n\n", rc, fw.Pick(r, names), fw.Pick(r, cands))
		}
	}
	switch r.Intn(6) {
	case 0:
		b.WriteString("func () f1() {}\n")
	case 1:
		b.WriteString("func (a, b T) f2() {}\n")
	case 2:
		b.WriteString("func (T) + (T) T { return T{} }\n")
	case 3:
		b.WriteString("func f3() {\nL:\n\tvar x = 1\n\t_ = x\n\tgoto L\n}\n")
	case 4:
		b.WriteString("var _, _ = 1\n\nconst ()\n\ntype ()\n")
	}
	return b.String()
}

// c07DeclCycles draws a file whose package-level declarations (functions, methods, types, constants, variables,
// overload declarations) refer to themselves or to each other in a cycle of length 1..3 from inside their own
// headers: parameter, result, receiver, element, key and constraint types, array lengths, underlying types, field
// and embedded types, constant and variable types and values. Most of these programs are invalid; every loader has
// to report that (or accept the valid ones) without recursing for ever.
func c07DeclCycles(r *fw.Rand) string {
	funcT := []string{"func N(x @) {}", "func N() @ { panic(0) }", "func N(xs ...@) int { return 0 }", "func N(a [len(@)]int) {}", "func N(a []@, b map[@]int) {}",
		"func N(a func(@) @) {}", "func N(a chan @, b *@) {}", "func N[T @]() {}", "func N(a [@]int) {}", "func N() (r @, err error) { return }",
		"func N() { var x @; _ = x }", "func N(a struct{ f @ }) {}", "func N(a interface{ m(@) }) {}", "func N() int { return @ }", "func (t @) N() {}", "func (t *@) N(x @) @ { return x }", "func (t T0) N(x @) {}"}
	typeT := []string{"type N @", "type N []@", "type N struct{ x @ }", "type N struct{ @ }", "type N struct{ *@ }", "type N [len(@)]int", "type N [@]int", "type N interface{ m(@) @ }", "type N interface{ @ }",
		"type N = @", "type N func(@) @", "type N map[@]@", "type N *@", "type N chan @", "type N [unsafe.Sizeof(@{})]byte", "type N[T @] struct{}", "type N struct{ x [1]@ }", "type N struct{ f func() @; g []@ }"}
	constT := []string{"const N = @", "const N = len(@)", "const N @ = 1", "const N = @ + 1", "const N = unsafe.Sizeof(@)", "const (\n\tN = iota + @\n\tN2\n)", "const N = @(1)", "const N, N3 = @, 2"}
	varT := []string{"var N = @", "var N @", "var N = @()", "var N = [@]int{}", "var N, N4 = @, 1", "var N = func() int { return @ }()", "var N = &@", "var N = @{}", "var N = []@{}", "var N = len(@)", "var N = {\"a\": @}", "var N = [x for x <- @]", "var N = @.f"}
	ovlT := []string{"func N = (@)", "func N = (@; @)", "func N = (\n\t@\n\tfunc(a int) {}\n)", "func (T0).N = (@)", "func (T0).N = ((T0).@)"}
	kinds := [][]string{funcT, funcT, typeT, typeT, constT, varT, varT, ovlT}
	names := []string{"f", "T", "c", "v", "g", "U", "d", "w"}
	n := r.Range(1, 3)
	perm := r.Perm(len(names))
	var use []string
	for i := 0; i < n; i++ {
		use = append(use, names[perm[i]])
	}
	var b strings.Builder
	b.WriteString("import \"unsafe\"\n\nvar _ = unsafe.Sizeof(0)\n\ntype T0 struct{ n int }\n\n")
	for i, name := range use {
		ref := use[(i+1)%n]
		if r.Chance(1, 6) {
			ref = name
		}
		t := fw.Pick(r, fw.Pick(r, kinds))
		t = strings.ReplaceAll(t, "N", name)
		t = strings.ReplaceAll(t, "@", ref)
		b.WriteString(t + "\n\n")
	}
	if r.Bool() {
		fmt.Fprintf(&b, "var _ = %s\n", use[0])
	} else if r.Bool() {
		fmt.Fprintf(&b, "echo %s\n", use[0])
	}
	return b.String()
}
