package checks

import (
	"fmt"
	"io/fs"
	"path"
	"sort"
	"strings"
	"syscall"
	"time"

	"github.com/goplus/xgo/ast"
	"github.com/goplus/xgo/parser"
	"github.com/goplus/xgo/token"

	"verif/fw"
)

// C34 — directory parsing selects and classifies exactly the right files (reference model).
type c34 struct{ Base }

func init() { fw.Register(&c34{Base: Base{Id: "C34", Lvl: "exploration"}}) }

func (p *c34) Setup(env *fw.Env) error {
	p.Env = env
	p.N = env.Pick(8000, 400000)
	p.RuleS = "random in-memory directories of 1..9 entries: names = prefix {'', '_', 'gop_autogen', 'gop_autogen_', 'main', 'x_'} x stem x extension {.xgo .gop .go .gox .spx .gmx .gsh .tspx .txt '' _yap.gox _test.gox _spx.gox .yap .GOX}, sub-directories (some with source-like names), contents with/without package clause (2 package names) and late syntax errors; ClassKind = nil or one of 3 generated tables; Filter = nil or a name predicate; ParseGoAsGoPlus on/off. ParseFSDir's map is compared with a ~30-line restatement of the selection/classification rule; every selected file is also passed through ParseFSEntry. Non-trivial = directory with >=3 entries; distinct by listing+config."
	p.Assume = []string{"file contents are tiny valid sources, or sources whose package clause is valid and whose error comes later"}
	p.Floor = map[string]int{"#evaluations": p.N / 2, "#nontrivial": 3000, "sel:xgo": 1000, "sel:go": 500, "sel:go-as-xgo": 200, "sel:class": 1000, "sel:proj": 200, "sel:normalgox": 500, "skip:underscore": 500, "skip:autogen": 200, "skip:unknown-ext": 1000, "skip:filter": 300, "skip:dir": 300, "pkg:two-packages": 300, "entry:checked": 3000, "classkind:custom": 1000}
	return nil
}

type c34entry struct {
	name  string
	dir   bool
	src   string
	pkg   string // declared package ("" = none)
	broke bool
}

type c34fs struct {
	ents  []c34entry
	files map[string]string
}

type c34info struct {
	name string
	dir  bool
}

func (i c34info) Name() string { return i.name }
func (i c34info) Size() int64  { return 0 }
func (i c34info) Mode() fs.FileMode {
	if i.dir {
		return fs.ModeDir | 0o755
	}
	return 0o644
}
func (i c34info) Type() fs.FileMode          { return i.Mode().Type() }
func (i c34info) ModTime() time.Time         { return time.Time{} }
func (i c34info) IsDir() bool                { return i.dir }
func (i c34info) Sys() any                   { return nil }
func (i c34info) Info() (fs.FileInfo, error) { return i, nil }

func (f *c34fs) ReadDir(dirname string) ([]fs.DirEntry, error) {
	if dirname != "/p" {
		return nil, syscall.ENOENT
	}
	out := make([]fs.DirEntry, len(f.ents))
	for i, e := range f.ents {
		out[i] = c34info{e.name, e.dir}
	}
	return out, nil
}
func (f *c34fs) ReadFile(filename string) ([]byte, error) {
	if s, ok := f.files[filename]; ok {
		return []byte(s), nil
	}
	return nil, syscall.ENOENT
}
func (f *c34fs) Join(elem ...string) string   { return path.Join(elem...) }
func (f *c34fs) Base(filename string) string  { return path.Base(filename) }
func (f *c34fs) Abs(p string) (string, error) { return p, nil }

var c34Prefixes = []string{"", "", "", "_", "gop_autogen", "gop_autogen_", "main", "x_"}
var c34Stems = []string{"a", "b", "foo", "main", ""}
var c34Exts = []string{".xgo", ".gop", ".go", ".go", ".gox", ".gox", ".spx", ".gmx", ".gsh", ".tspx", ".txt", "", "_yap.gox", "_test.gox", "_spx.gox", ".yap", ".GOX", ".md"}

// class-kind tables: suffix -> (class, proj rule)
type c34ck struct {
	suffix string
	proj   string // "" never, "*" always, otherwise exact file name
}

var c34Tables = [][]c34ck{
	nil, // default
	{{"_yap.gox", "main_yap.gox"}, {".yap", "*"}},
	{{".tspx", "main.tspx"}, {"_test.gox", ""}, {".spx", "*"}},
	{{".gox", "main.gox"}, {".txt", ""}},
}

func c34ClassKind(tbl []c34ck) func(string) (bool, bool) {
	if tbl == nil {
		return nil
	}
	return func(fname string) (isProj, ok bool) {
		for _, e := range tbl {
			if strings.HasSuffix(fname, e.suffix) {
				return e.proj == "*" || e.proj == fname, true
			}
		}
		return false, false
	}
}

// the documented default
func c34DefaultKind(fname string) (isProj, ok bool) {
	switch path.Ext(fname) {
	case ".spx":
		return fname == "main.spx", true
	case ".gsh", ".gmx":
		return true, true
	}
	return false, false
}

func (p *c34) Case(i int) fw.Case {
	r := p.rnd(i)
	n := r.Range(1, 9)
	seen := map[string]bool{}
	var aux []string
	for k := 0; k < n; k++ {
		name := fw.Pick(r, c34Prefixes) + fw.Pick(r, c34Stems) + fw.Pick(r, c34Exts)
		if name == "" || seen[name] {
			continue
		}
		seen[name] = true
		kind := "f"
		if r.Chance(1, 8) {
			kind = "d"
		}
		pkg := fw.Pick(r, []string{"", "", "main", "foo", "foo", "bar"})
		broke := "0"
		if r.Chance(1, 10) {
			broke = "1"
		}
		aux = append(aux, strings.Join([]string{name, kind, pkg, broke}, "|"))
	}
	sort.Strings(aux) // directory listings are sorted by name
	return fw.Case{Kind: "dir", Aux: aux, P: map[string]string{
		"table": fmt.Sprint(r.Intn(len(c34Tables))), "filter": fmt.Sprint(r.Intn(3)), "goasxgo": fmt.Sprint(r.Intn(2))}}
}

type c34want struct {
	pkg                       string
	goFile                    bool
	isClass, isProj, isNormal bool
}

func (p *c34) Run(c fw.Case, r *fw.Rec) {
	var ti, fi, gx int
	fmt.Sscan(c.P["table"], &ti)
	fmt.Sscan(c.P["filter"], &fi)
	fmt.Sscan(c.P["goasxgo"], &gx)
	tbl := c34Tables[ti%len(c34Tables)]
	kind := c34DefaultKind
	if tbl != nil {
		kind = c34ClassKind(tbl)
		r.Cover("classkind:custom")
	}
	var filter func(fs.FileInfo) bool
	switch fi {
	case 1:
		filter = func(fi fs.FileInfo) bool { return !strings.Contains(fi.Name(), "foo") }
	case 2:
		filter = func(fi fs.FileInfo) bool {
			return !strings.HasSuffix(fi.Name(), "_test.gox") && !strings.HasPrefix(fi.Name(), "x_")
		}
	}
	mode := parser.Mode(0)
	if gx == 1 {
		mode |= parser.ParseGoAsGoPlus
	}
	fsys := &c34fs{files: map[string]string{}}
	want := map[string]c34want{}
	anyBroken := false
	for _, a := range c.Aux {
		f := strings.Split(a, "|")
		e := c34entry{name: f[0], dir: f[1] == "d", pkg: f[2], broke: f[3] == "1"}
		ext := path.Ext(e.name)
		isGo := ext == ".go"
		// contents
		src := ""
		if e.pkg != "" {
			src = "package " + e.pkg + "\n\n"
		} else if isGo && gx == 0 {
			e.pkg = "main"
			src = "package main\n\n"
		}
		if ext == ".xgo" || ext == ".gop" || isGo {
			// a package-level variable with an initialiser: valid in a normal file, an error in class-file mode
			src += "var v" + fmt.Sprint(len(fsys.ents)) + " = " + fmt.Sprint(len(fsys.ents)) + "\n"
		} else {
			src += "var v" + fmt.Sprint(len(fsys.ents)) + " int\n"
		}
		if e.broke {
			src += "func (\n"
		}
		e.src = src
		fsys.ents = append(fsys.ents, e)
		fsys.files["/p/"+e.name] = src
		// ---- model: the rule as stated in the property ----
		if e.dir {
			r.Cover("skip:dir")
			continue
		}
		var w c34want
		selected := true
		switch ext {
		case ".xgo", ".gop":
		case ".go":
			if strings.HasPrefix(e.name, "gop_autogen") {
				selected = false
				r.Cover("skip:autogen")
			}
			w.goFile = gx == 0
		default:
			isProj, ok := kind(e.name)
			switch {
			case ok:
				w.isClass, w.isProj = true, isProj
			case ext == ".gox":
				w.isClass, w.isNormal = true, true
			default:
				selected = false
				r.Cover("skip:unknown-ext")
			}
		}
		if !selected {
			continue
		}
		if strings.HasPrefix(e.name, "_") {
			r.Cover("skip:underscore")
			continue
		}
		if filter != nil && !filter(c34info{e.name, false}) {
			r.Cover("skip:filter")
			continue
		}
		if e.broke {
			anyBroken = true
			if w.goFile {
				continue // go/parser result with errors is dropped
			}
		}
		w.pkg = e.pkg
		if w.pkg == "" {
			w.pkg = "main"
		}
		want["/p/"+e.name] = w
	}
	// ---- implementation ----
	var pkgs map[string]*ast.Package
	var err error
	fset := token.NewFileSet()
	conf := parser.Config{ClassKind: c34ClassKind(tbl), Filter: filter, Mode: mode}
	if fw.Guard(r, "parser.ParseFSDir", func() { pkgs, err = parser.ParseFSDir(fset, fsys, "/p", conf) }) {
		return
	}
	if (err != nil) != anyBroken {
		r.Fail("dir:error-presence", "ParseFSDir error=%v but the directory %s a selected file with a syntax error\nlisting: %v", err, map[bool]string{true: "has", false: "has no"}[anyBroken], c.Aux)
		return
	}
	got := map[string]c34want{}
	for name, pk := range pkgs {
		if pk.Name != name {
			r.Fail("dir:package-name-key", "package keyed %q has Name %q", name, pk.Name)
		}
		for fn, f := range pk.Files {
			got[fn] = c34want{pkg: name, isClass: f.IsClass, isProj: f.IsProj, isNormal: f.IsNormalGox}
		}
		for fn := range pk.GoFiles {
			got[fn] = c34want{pkg: name, goFile: true}
		}
	}
	var names []string
	for k := range want {
		names = append(names, k)
	}
	for k := range got {
		if _, ok := want[k]; !ok {
			names = append(names, k)
		}
	}
	sort.Strings(names)
	pkgSet := map[string]bool{}
	for _, fn := range names {
		w, wok := want[fn]
		g, gok := got[fn]
		switch {
		case wok && !gok:
			r.Fail("dir:file-missing:"+c34kind(w), "%s should be included (%+v) but is absent\nlisting: %v config: %v", fn, w, c.Aux, c.P)
			return
		case !wok && gok:
			r.Fail("dir:file-unexpected:"+c34kind(g), "%s should be excluded but was returned as %+v\nlisting: %v config: %v", fn, g, c.Aux, c.P)
			return
		case w != g:
			r.Fail("dir:classification:"+c34kind(w), "%s: got %+v want %+v\nlisting: %v config: %v", fn, g, w, c.Aux, c.P)
			return
		}
		pkgSet[w.pkg] = true
		switch {
		case w.goFile:
			r.Cover("sel:go")
		case w.isNormal:
			r.Cover("sel:normalgox")
		case w.isProj:
			r.Cover("sel:proj")
			r.Cover("sel:class")
		case w.isClass:
			r.Cover("sel:class")
		case path.Ext(fn) == ".go":
			r.Cover("sel:go-as-xgo")
		default:
			r.Cover("sel:xgo")
		}
	}
	if len(pkgSet) >= 2 {
		r.Cover("pkg:two-packages")
	}
	// ParseFSEntry on every regular entry
	for _, e := range fsys.ents {
		if e.dir {
			continue
		}
		fn := "/p/" + e.name
		var f *ast.File
		var eerr error
		if fw.Guard(r, "parser.ParseFSEntry", func() { f, eerr = parser.ParseFSEntry(token.NewFileSet(), fsys, fn, nil, conf) }) {
			return
		}
		r.Cover("entry:checked")
		ext := path.Ext(e.name)
		var wc, wp, wn, known bool
		switch ext {
		case ".xgo", ".gop", ".go":
			known = true
		default:
			if isProj, ok := kind(e.name); ok {
				known, wc, wp = true, true, isProj
			} else if ext == ".gox" {
				known, wc, wn = true, true, true
			}
		}
		if !known {
			if eerr != parser.ErrUnknownFileKind {
				r.Fail("entry:unknown-kind-accepted", "ParseFSEntry(%s) err=%v, want ErrUnknownFileKind", fn, eerr)
				return
			}
			continue
		}
		if f == nil {
			r.Fail("entry:nil-file", "ParseFSEntry(%s) returned nil file (err=%v)", fn, eerr)
			return
		}
		if f.IsClass != wc || f.IsProj != wp || f.IsNormalGox != wn {
			r.Fail("entry:classification", "ParseFSEntry(%s): IsClass=%v IsProj=%v IsNormalGox=%v want %v %v %v (config %v)", fn, f.IsClass, f.IsProj, f.IsNormalGox, wc, wp, wn, c.P)
			return
		}
	}
	if len(c.Aux) >= 3 {
		r.NonTrivial()
		r.Sample(map[string]any{"listing": c.Aux, "config": c.P, "selected": len(want)})
	}
}

func c34kind(w c34want) string {
	switch {
	case w.goFile:
		return "go"
	case w.isNormal:
		return "normalgox"
	case w.isProj:
		return "proj"
	case w.isClass:
		return "class"
	}
	return "xgo"
}
