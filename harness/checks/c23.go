package checks

import (
	"fmt"
	"sort"
	"strconv"
	"strings"

	"github.com/goplus/xgo/ast"
	"github.com/goplus/xgo/format"
	"github.com/goplus/xgo/parser"
	"github.com/goplus/xgo/token"

	"verif/fw"
)

// C23 — import sorting keeps the import set (conservation invariant).
type c23 struct{ Base }

func init() { fw.Register(&c23{Base: Base{Id: "C23", Lvl: "exploration"}}) }

func (p *c23) Setup(env *fw.Env) error {
	p.Env = env
	p.N = env.Pick(8000, 400000)
	p.RuleS = "random import sections: 1..3 import declarations (grouped and ungrouped), 1..4 blank-line separated groups of 1..5 specs each, named / dot / blank / unnamed imports, exact duplicates, the same path under different names, uniquely numbered doc comments above and line comments behind specs, raw-string paths; as .xgo source with and without package clause and followed by code. Oracle after format.Source: set of (name,path) unchanged and multiplicity only reduced for exact duplicates; per import declaration; every contiguous run of specs (specs on directly successive lines, go/ast.SortImports' definition) of the output sorted by path; import paths compared unquoted (the printer respells raw-string paths). Comment attachment and group boundaries are generated for coverage but are not part of the property. Non-trivial = >=3 specs; distinct by source."
	p.Assume = []string{"exact duplicates carry no comments in generated inputs (go/ast.SortImports keeps commented duplicates)"}
	p.Floor = map[string]int{"#evaluations": p.N / 2, "#nontrivial": 3000, "specs": p.N * 3, "groups>1": 1000, "decls>1": 1000, "named": 2000, "duplicates-removed": 300, "comments-tracked": 3000, "unsorted-input": 2000}
	return nil
}

type c23spec struct {
	name, path string // path incl. quotes
	doc, line  string // comment ids ("" = none)
}

var c23Paths = []string{`"fmt"`, `"os"`, `"strings"`, `"a/b"`, `"a/c"`, `"github.com/x/y"`, `"z"`, "`raw/p`", `"b"`, `"golang.org/x/tools"`, `"a"`, `"A/b"`, `"fmt/x"`}

func (p *c23) Case(i int) fw.Case {
	r := p.rnd(i)
	var b strings.Builder
	if r.Chance(2, 3) {
		b.WriteString("package p\n\n")
	}
	cid := 0
	ndecl := r.Range(1, 3)
	for d := 0; d < ndecl; d++ {
		if r.Chance(1, 4) {
			b.WriteString("import " + c23SpecText(r, &cid, false) + "\n")
			continue
		}
		b.WriteString("import (\n")
		ngrp := r.Range(1, 4)
		for g := 0; g < ngrp; g++ {
			if g > 0 {
				b.WriteString("\n")
			}
			n := r.Range(1, 5)
			var prev string
			for k := 0; k < n; k++ {
				var line string
				if prev != "" && r.Chance(1, 6) {
					line = prev // exact duplicate (no comments)
				} else {
					line = c23SpecText(r, &cid, true)
					if !strings.Contains(line, "//") {
						prev = line
					}
				}
				for _, l := range strings.Split(line, "\n") {
					b.WriteString("\t" + l + "\n")
				}
			}
		}
		b.WriteString(")\n")
		if r.Chance(1, 3) {
			b.WriteString("\n")
		}
	}
	b.WriteString("\nvar X = 1\n")
	return fw.Case{Kind: "imports", In: []byte(b.String())}
}

func c23SpecText(r *fw.Rand, cid *int, comments bool) string {
	s := ""
	if comments && r.Chance(1, 6) {
		*cid++
		s += fmt.Sprintf("// d%d\n", *cid)
	}
	switch r.Intn(6) {
	case 0:
		s += fw.Pick(r, []string{"x", "y2", "fmt2"}) + " "
	case 1:
		s += "_ "
	case 2:
		if r.Chance(1, 3) {
			s += ". "
		}
	}
	s += fw.Pick(r, c23Paths)
	if comments && r.Chance(1, 5) {
		*cid++
		s += fmt.Sprintf(" // c%d", *cid)
	}
	return s
}

type c23group struct {
	decl  int
	specs []c23spec
}

// c23Groups extracts the import groups (decl index, blank-line separated) of a parsed file.
func c23Groups(fset *token.FileSet, f *ast.File) []c23group {
	var out []c23group
	di := 0
	for _, d := range f.Decls {
		gd, ok := d.(*ast.GenDecl)
		if !ok || gd.Tok != token.IMPORT {
			continue
		}
		var cur *c23group
		lastLine := -1
		for _, s := range gd.Specs {
			is := s.(*ast.ImportSpec)
			// a run = specs on directly successive lines (go/ast.SortImports' definition: a comment line or a blank
			// line between two specs ends the run)
			line := fset.Position(is.Pos()).Line
			if cur == nil || line > lastLine+1 {
				out = append(out, c23group{decl: di})
				cur = &out[len(out)-1]
			}
			sp := c23spec{path: strconv.Quote(c23PathKey(is.Path.Value))} // the printer may respell a raw-string path
			if is.Name != nil {
				sp.name = is.Name.Name
			}
			if is.Doc != nil {
				sp.doc = strings.TrimSpace(strings.TrimPrefix(is.Doc.List[0].Text, "//"))
			}
			if is.Comment != nil {
				sp.line = strings.TrimSpace(strings.TrimPrefix(is.Comment.List[0].Text, "//"))
			}
			cur.specs = append(cur.specs, sp)
			lastLine = fset.Position(is.End()).Line
		}
		di++
	}
	return out
}

func c23PathKey(p string) string {
	s, err := strconv.Unquote(p)
	if err != nil {
		return p
	}
	return s
}

func (p *c23) Run(c fw.Case, r *fw.Rec) {
	src := c.In
	fset0 := token.NewFileSet()
	f0, err := parser.ParseFile(fset0, "a.xgo", src, parser.ParseComments)
	if err != nil {
		r.Skip("generated-invalid")
		return
	}
	in := c23Groups(fset0, f0)
	var out []byte
	if fw.Guard(r, "format.Source", func() { out, err = format.Source(src, false, "a.xgo") }) {
		return
	}
	if err != nil {
		r.Fail("imports:format-error", "format.Source failed: %v", err)
		return
	}
	fset1 := token.NewFileSet()
	f1, err := parser.ParseFile(fset1, "a.xgo", out, parser.ParseComments)
	if err != nil {
		r.Fail("imports:output-does-not-parse", "formatted output does not parse: %v\n%s", err, out)
		return
	}
	got := c23Groups(fset1, f1)
	nspec := 0
	fail := func(site, format string, args ...any) {
		r.Fail(site, format+"\n--- input ---\n%s--- output ---\n%s", append(args, src, out)...)
	}
	key := func(s c23spec) string { return s.name + " " + s.path }
	type bag map[string]int
	perDecl := func(gs []c23group) map[int]bag {
		m := map[int]bag{}
		for _, g := range gs {
			if m[g.decl] == nil {
				m[g.decl] = bag{}
			}
			for _, s := range g.specs {
				m[g.decl][key(s)]++
			}
		}
		return m
	}
	din, dout := perDecl(in), perDecl(got)
	decls := map[int]bool{}
	if len(din) != len(dout) {
		fail("imports:declaration-count-changed", "%d import declarations in, %d out", len(din), len(dout))
		return
	}
	for d, cin := range din {
		decls[d] = true
		cout := dout[d]
		for k, n := range cin {
			nspec += n
			m := cout[k]
			switch {
			case m == 0:
				fail("imports:import-removed", "declaration %d: import %s disappeared", d, k)
				return
			case m > n:
				fail("imports:import-added", "declaration %d: import %s occurs %d times, was %d", d, k, m, n)
				return
			case m < n:
				r.Cover("duplicates-removed")
			}
		}
		for k := range cout {
			if cin[k] == 0 {
				fail("imports:import-added", "declaration %d: import %s appeared", d, k)
				return
			}
		}
	}
	for _, g := range in {
		for k, s := range g.specs {
			if s.name != "" {
				r.Cover("named")
			}
			if s.doc != "" || s.line != "" {
				r.Cover("comments-tracked")
			}
			if k > 0 && c23PathKey(g.specs[k-1].path) > c23PathKey(s.path) {
				r.Cover("unsorted-input")
			}
		}
	}
	// every contiguous run of the output is sorted by path
	for gi, g := range got {
		for k := 1; k < len(g.specs); k++ {
			if c23PathKey(g.specs[k-1].path) > c23PathKey(g.specs[k].path) {
				fail("imports:group-not-sorted", "run %d of the output is not sorted by path: %s before %s", gi, g.specs[k-1].path, g.specs[k].path)
				return
			}
		}
	}
	r.CoverN("specs", nspec)
	if len(in) > 1 {
		r.Cover("groups>1")
	}
	if len(decls) > 1 {
		r.Cover("decls>1")
	}
	if nspec >= 3 {
		r.NonTrivial()
		if nspec <= 5 {
			r.Sample(string(src))
		}
	}
	_ = sort.Strings
}
