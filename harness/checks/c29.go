package checks

import (
	"fmt"
	gotoken "go/token"
	"strconv"
	"strings"

	"github.com/goplus/xgo/tpl"
	"github.com/goplus/xgo/tpl/matcher"
	tplscanner "github.com/goplus/xgo/tpl/scanner"
	tpltoken "github.com/goplus/xgo/tpl/token"
	tpltypes "github.com/goplus/xgo/tpl/types"

	"verif/fw"
	"verif/gen"
)

// C29 — grammar matching follows the documented TPL semantics (reference PEG interpreter).
type c29 struct {
	Base
}

func init() { fw.Register(&c29{Base: Base{Id: "C29", Lvl: "exploration"}}) }

func (p *c29) Setup(env *fw.Env) error {
	p.Env = env
	p.N = env.Pick(30000, 1500000)
	p.RuleS = "random 1-3 rule grammars (rule i references only later rules, plus parenthesis-guarded self reference) over token classes IDENT INT FLOAT STRING CHAR, keywords and operator literals, with sequence, choice, * + ?, %, ++; stated domain: repetition bodies are non-nullable; choice alternatives may be nullable, but an execution in which an alternative matched its first token, failed later, and a later alternative is nullable is skipped (README is silent on falling back after a partial match; the implementation commits). Inputs are random derivations of the grammar, half of them perturbed by dropping/replacing/duplicating/inserting one token, rendered with generated spacing (touching and non-touching tokens around ++). Oracle: a ~100-line PEG interpreter over the generator's own tree (ordered choice, greedy repetition without backtracking into it, % as R1 *(R2 R1), ++ requiring both sides non-empty and touching) must agree with Compiler.Match on success/failure, consumed tokens and the result tree (tokens identified by offset). Non-trivial = derivation with >=2 tokens; distinct by grammar+input."
	p.Assume = []string{"the reference interpreter restates tpl/README.md", "token lists come from the real TPL scanner (checked by C32/C33)", "nullable alternatives / repetition bodies are outside the stated domain (README is silent)"}
	p.Floor = map[string]int{"#evaluations": p.N / 2, "#nontrivial": 5000, "agree:match": p.N / 10, "agree:fail": p.N / 20,
		"op:seq": 1000, "op:choice": 1000, "op:*": 1000, "op:+": 1000, "op:?": 1000, "op:%": 1000, "op:++": 500, "adjoin:touching-ok": 100, "adjoin:gap-rejected": 20, "kw-vs-ident-choice": 50, "nullable-alternative": 500}
	return nil
}

var c29Classes = []string{"IDENT", "INT", "FLOAT", "STRING", "CHAR"}
var c29Lits = []string{`"if"`, `"else"`, `"for"`, `"+"`, `"-"`, `"*"`, `"("`, `")"`, `","`, `'+'`, `':'`, `"<<"`, `"+="`}

type c29gen struct {
	r     *fw.Rand
	rules []string // names
	body  map[string]*gen.TG
}

func (g *c29gen) nullable(t *gen.TG) bool {
	switch t.Kind {
	case "ident":
		if b, ok := g.body[t.Name]; ok {
			return g.nullable(b)
		}
		return false
	case "lit":
		return t.Text == `""`
	case "seq":
		for _, k := range t.Kids {
			if !g.nullable(k) {
				return false
			}
		}
		return true
	case "choice":
		for _, k := range t.Kids {
			if g.nullable(k) {
				return true
			}
		}
		return false
	case "un":
		if t.Op == "+" {
			return g.nullable(t.Kids[0])
		}
		return true
	case "bin":
		if t.Op == "%" {
			return g.nullable(t.Kids[0])
		}
		return false
	}
	return false
}

// expr draws an expression for rule index ri; if needNonNull the result is non-nullable.
func (g *c29gen) expr(ri, depth int, needNonNull bool) *gen.TG {
	for try := 0; try < 20; try++ {
		t := g.expr1(ri, depth)
		if !needNonNull || !g.nullable(t) {
			return t
		}
	}
	return gen.TIdent("INT")
}

func (g *c29gen) atom(ri int) *gen.TG {
	r := g.r
	switch k := r.Intn(10); {
	case k < 4:
		return gen.TIdent(fw.Pick(r, c29Classes))
	case k < 8:
		return gen.TLit(fw.Pick(r, c29Lits))
	default:
		if ri+1 < len(g.rules) {
			return gen.TIdent(g.rules[ri+1+r.Intn(len(g.rules)-ri-1)])
		}
		return gen.TIdent(fw.Pick(r, c29Classes))
	}
}

func (g *c29gen) expr1(ri, depth int) *gen.TG {
	r := g.r
	if depth >= 3 || r.Chance(1, 4) {
		return g.atom(ri)
	}
	switch k := r.Intn(12); {
	case k < 3:
		n := r.Range(2, 3)
		kids := make([]*gen.TG, n)
		for i := range kids {
			kids[i] = g.expr(ri, depth+1, false)
		}
		return gen.TSeq(kids...)
	case k < 5:
		n := r.Range(2, 3)
		kids := make([]*gen.TG, n)
		nullableAlts := r.Chance(1, 3) // nullable alternatives (?X, *X, …) are in the domain, see c29ref.ambiguous
		for i := range kids {
			kids[i] = g.expr(ri, depth+1, !nullableAlts)
		}
		if r.Chance(1, 3) { // keyword alternative before an IDENT-class alternative
			kids[0] = gen.TSeq(gen.TLit(fw.Pick(r, []string{`"if"`, `"for"`})), g.expr(ri, depth+1, true))
			kids[1] = gen.TSeq(gen.TIdent("IDENT"), g.expr(ri, depth+1, false))
		}
		return gen.TChoice(kids...)
	case k < 7:
		return gen.TUn(fw.Pick(r, []string{"*", "+"}), g.expr(ri, depth+1, true))
	case k < 8:
		return gen.TUn("?", g.expr(ri, depth+1, false))
	case k < 10:
		return gen.TBin("%", g.expr(ri, depth+1, true), g.expr(ri, depth+1, false))
	case k < 11:
		return gen.TBin("++", g.expr(ri, depth+1, false), g.expr(ri, depth+1, false))
	default:
		// guarded self reference
		return gen.TSeq(gen.TLit(`"("`), gen.TIdent(g.rules[ri]), gen.TLit(`")"`))
	}
}

type c29tok struct {
	text  string
	touch bool // must touch the previous token (++ boundary)
}

// derive produces a token sequence generated by t.
func (g *c29gen) derive(t *gen.TG, depth int, out *[]c29tok) {
	r := g.r
	switch t.Kind {
	case "ident":
		if b, ok := g.body[t.Name]; ok {
			if depth > 6 {
				*out = append(*out, c29tok{text: "1"})
				return
			}
			g.derive(b, depth+1, out)
			return
		}
		switch t.Name {
		case "IDENT":
			*out = append(*out, c29tok{text: fw.Pick(r, []string{"a", "b", "foo", "if", "x1", "for"})})
		case "INT":
			*out = append(*out, c29tok{text: fw.Pick(r, []string{"1", "42", "0x1f"})})
		case "FLOAT":
			*out = append(*out, c29tok{text: fw.Pick(r, []string{"1.5", "2e3"})})
		case "STRING":
			*out = append(*out, c29tok{text: fw.Pick(r, []string{`"s"`, "`r`", `""`})})
		case "CHAR":
			*out = append(*out, c29tok{text: fw.Pick(r, []string{`'c'`, `'\n'`})})
		}
	case "lit":
		s, err := strconv.Unquote(t.Text)
		if err != nil {
			s = strings.Trim(t.Text, "'\"")
		}
		if s != "" {
			*out = append(*out, c29tok{text: s})
		}
	case "seq":
		for _, k := range t.Kids {
			g.derive(k, depth+1, out)
		}
	case "choice":
		g.derive(fw.Pick(r, t.Kids), depth+1, out)
	case "un":
		lo, hi := 0, 3
		switch t.Op {
		case "+":
			lo = 1
		case "?":
			hi = 1
		}
		if depth > 4 {
			hi = lo
		}
		for n := r.Range(lo, hi); n > 0; n-- {
			g.derive(t.Kids[0], depth+1, out)
		}
	case "bin":
		if t.Op == "%" {
			n := r.Range(1, 3)
			if depth > 4 {
				n = 1
			}
			for i := 0; i < n; i++ {
				if i > 0 {
					g.derive(t.Kids[1], depth+1, out)
				}
				g.derive(t.Kids[0], depth+1, out)
			}
		} else {
			g.derive(t.Kids[0], depth+1, out)
			k := len(*out)
			g.derive(t.Kids[1], depth+1, out)
			if k < len(*out) && k > 0 && !r.Chance(1, 6) {
				(*out)[k].touch = true
			}
		}
	}
}

func c29class(s string) int {
	// 0 word, 1 str, 2 punct, 3 op
	switch {
	case s == "":
		return 0
	case s[0] == '"' || s[0] == '\'' || s[0] == '`':
		return 1
	case s == "(" || s == ")" || s == ",":
		return 2
	case strings.ContainsAny(s[:1], "+-*:<=>"):
		return 3
	}
	return 0
}

func c29CanTouch(a, b string) bool {
	ca, cb := c29class(a), c29class(b)
	if ca == 0 && cb == 0 {
		return false
	}
	if ca == 3 && cb == 3 {
		return false
	}
	if ca == 0 && cb == 1 && (a == "c" || a == "C" || a == "py") {
		return false
	}
	if ca == 3 && cb == 0 && (a == "-" || a == "+") {
		return true
	}
	if cb == 3 && b == "*" && ca == 3 {
		return false
	}
	if ca == 0 && cb == 3 && strings.ContainsAny(a, "eE.") { // 2e3+ is fine, but keep numbers apart from signs
		return false
	}
	return true
}

func (p *c29) Case(i int) fw.Case {
	r := p.rnd(i)
	g := &c29gen{r: r, body: map[string]*gen.TG{}}
	nr := r.Range(1, 3)
	g.rules = []string{"doc", "ra", "rb"}[:nr]
	for k := nr - 1; k >= 0; k-- {
		g.body[g.rules[k]] = g.expr(k, 0, k == 0 && r.Bool())
	}
	var gs strings.Builder
	for _, n := range g.rules {
		gs.WriteString(n + " = " + g.body[n].String() + "\n")
	}
	var toks []c29tok
	g.derive(g.body["doc"], 0, &toks)
	if len(toks) > 40 {
		toks = toks[:40]
	}
	if r.Bool() && len(toks) > 0 {
		k := r.Intn(len(toks))
		repl := c29tok{text: fw.Pick(r, []string{"a", "if", "1", "1.5", `"s"`, "+", "-", "(", ")", ",", "*", ":", "'c'"})}
		switch r.Intn(4) {
		case 0:
			toks = append(toks[:k:k], toks[k+1:]...)
		case 1:
			toks[k] = repl
		case 2:
			toks = append(toks[:k+1:k+1], append([]c29tok{toks[k]}, toks[k+1:]...)...)
		case 3:
			toks = append(toks[:k:k], append([]c29tok{repl}, toks[k:]...)...)
		}
	}
	var in strings.Builder
	for k, t := range toks {
		if k > 0 {
			touch := t.touch || r.Chance(1, 8)
			if !(touch && c29CanTouch(toks[k-1].text, t.text)) {
				in.WriteString(fw.Pick(r, []string{" ", " ", "  ", " /*c*/ "}))
			}
		}
		in.WriteString(t.text)
	}
	// the shapes of the rules travel with the case so that Run needs no generator state
	aux := []string{in.String()}
	return fw.Case{Kind: "gen", In: []byte(gs.String()), Aux: aux}
}

// ---- reference interpreter ----

type c29ref struct {
	rules     map[string]*gen.TG
	toks      []*tpltypes.Token
	steps     int
	ambiguous bool
}

func (m *c29ref) nullable(t *gen.TG, depth int) bool {
	if depth > 8 {
		return false
	}
	switch t.Kind {
	case "ident":
		if b, ok := m.rules[t.Name]; ok {
			return m.nullable(b, depth+1)
		}
		return false
	case "lit":
		return t.Text == `""`
	case "seq":
		for _, k := range t.Kids {
			if !m.nullable(k, depth) {
				return false
			}
		}
		return true
	case "choice":
		for _, k := range t.Kids {
			if m.nullable(k, depth) {
				return true
			}
		}
		return false
	case "un":
		return t.Op != "+" || m.nullable(t.Kids[0], depth)
	case "bin":
		return t.Op == "%" && m.nullable(t.Kids[0], depth)
	}
	return false
}

// canStart reports whether the token at pos can be the first token of a match of t.
func (m *c29ref) canStart(t *gen.TG, pos, depth int) bool {
	if depth > 8 || pos >= len(m.toks) {
		return false
	}
	switch t.Kind {
	case "ident":
		if b, ok := m.rules[t.Name]; ok {
			return m.canStart(b, pos, depth+1)
		}
		ok, _, _ := m.match(t, pos)
		return ok
	case "lit":
		ok, _, _ := m.match(t, pos)
		return ok
	case "seq":
		for _, k := range t.Kids {
			if m.canStart(k, pos, depth) {
				return true
			}
			if !m.nullable(k, depth) {
				return false
			}
		}
		return false
	case "choice":
		for _, k := range t.Kids {
			if m.canStart(k, pos, depth) {
				return true
			}
		}
		return false
	case "un":
		return m.canStart(t.Kids[0], pos, depth)
	case "bin":
		if m.canStart(t.Kids[0], pos, depth) {
			return true
		}
		return t.Op == "%" && m.nullable(t.Kids[0], depth) && m.canStart(t.Kids[1], pos, depth)
	}
	return false
}

var tplSpellRev = func() map[string]tpltoken.Token {
	m := map[string]tpltoken.Token{}
	for t, s := range tplSpell {
		m[s] = t
	}
	return m
}()

var c29ClassTok = map[string]tpltoken.Token{"IDENT": tpltoken.IDENT, "INT": tpltoken.INT, "FLOAT": tpltoken.FLOAT, "STRING": tpltoken.STRING, "CHAR": tpltoken.CHAR}

func (m *c29ref) match(g *gen.TG, pos int) (ok bool, n int, res string) {
	m.steps++
	if m.steps > 2000000 {
		panic("c29ref: step budget")
	}
	switch g.Kind {
	case "ident":
		if b, isRule := m.rules[g.Name]; isRule {
			return m.match(b, pos)
		}
		if pos < len(m.toks) && m.toks[pos].Tok == c29ClassTok[g.Name] {
			return true, 1, m.tokRes(pos)
		}
		return false, 0, ""
	case "lit":
		s, err := strconv.Unquote(g.Text)
		if err != nil {
			return false, 0, ""
		}
		if pos >= len(m.toks) {
			return false, 0, ""
		}
		t := m.toks[pos]
		if c := s[0]; c >= 'a' && c <= 'z' || c >= 'A' && c <= 'Z' || c == '_' {
			if t.Tok == tpltoken.IDENT && t.Lit == s {
				return true, 1, m.tokRes(pos)
			}
			return false, 0, ""
		}
		if want, found := tplSpellRev[s]; found && t.Tok == want {
			return true, 1, m.tokRes(pos)
		}
		return false, 0, ""
	case "seq":
		var parts []string
		for _, k := range g.Kids {
			ok1, n1, r1 := m.match(k, pos+n)
			if !ok1 {
				return false, 0, ""
			}
			n += n1
			parts = append(parts, r1)
		}
		return true, n, "[" + strings.Join(parts, " ") + "]"
	case "choice":
		for i, k := range g.Kids {
			if ok1, n1, r1 := m.match(k, pos); ok1 {
				return true, n1, r1
			}
			// README is silent on whether a choice may fall back to a later *nullable* alternative after an
			// earlier alternative matched its first token and failed later (the implementation commits):
			// such executions are outside the stated domain.
			if m.canStart(k, pos, 0) {
				for _, later := range g.Kids[i+1:] {
					if m.nullable(later, 0) {
						m.ambiguous = true
					}
				}
			}
		}
		return false, 0, ""
	case "un":
		switch g.Op {
		case "?":
			if ok1, n1, r1 := m.match(g.Kids[0], pos); ok1 {
				return true, n1, r1
			}
			return true, 0, "nil"
		default:
			var parts []string
			for {
				ok1, n1, r1 := m.match(g.Kids[0], pos+n)
				if !ok1 || n1 == 0 {
					break
				}
				n += n1
				parts = append(parts, r1)
			}
			if g.Op == "+" && len(parts) == 0 {
				return false, 0, ""
			}
			return true, n, "[" + strings.Join(parts, " ") + "]"
		}
	case "bin":
		if g.Op == "%" {
			ok1, n1, r1 := m.match(g.Kids[0], pos)
			if !ok1 {
				return false, 0, ""
			}
			n = n1
			var parts []string
			for {
				okS, nS, rS := m.match(g.Kids[1], pos+n)
				if !okS {
					break
				}
				okE, nE, rE := m.match(g.Kids[0], pos+n+nS)
				if !okE || nS+nE == 0 {
					break
				}
				n += nS + nE
				parts = append(parts, "["+rS+" "+rE+"]")
			}
			return true, n, "[" + r1 + " [" + strings.Join(parts, " ") + "]]"
		}
		ok1, n1, r1 := m.match(g.Kids[0], pos)
		if !ok1 || n1 == 0 {
			return false, 0, ""
		}
		ok2, n2, r2 := m.match(g.Kids[1], pos+n1)
		if !ok2 || n2 == 0 {
			return false, 0, ""
		}
		if m.toks[pos+n1-1].End() != m.toks[pos+n1].Pos {
			return false, 0, ""
		}
		return true, n1 + n2, "[" + r1 + " " + r2 + "]"
	}
	return false, 0, ""
}

func (m *c29ref) tokRes(pos int) string { return fmt.Sprintf("#%d", int(m.toks[pos].Pos)) }

func c29Render(v any) string {
	switch v := v.(type) {
	case nil:
		return "nil"
	case *tpltypes.Token:
		if v == nil {
			return "nil"
		}
		return fmt.Sprintf("#%d", int(v.Pos))
	case []any:
		parts := make([]string, len(v))
		for i, x := range v {
			parts[i] = c29Render(x)
		}
		return "[" + strings.Join(parts, " ") + "]"
	}
	return fmt.Sprintf("<%T>", v)
}

// parseTG re-parses the generator's printed grammar into TG trees (the harness's own tiny parser, so that a
// replay file is self-contained: it holds only the grammar text and the input).
func c29ParseGrammar(src string) (names []string, rules map[string]*gen.TG, err error) {
	rules = map[string]*gen.TG{}
	for _, ln := range strings.Split(strings.TrimSpace(src), "\n") {
		i := strings.Index(ln, " = ")
		if i < 0 {
			return nil, nil, fmt.Errorf("bad rule line %q", ln)
		}
		p := &tgParser{s: ln[i+3:]}
		g := p.choice()
		if p.err != nil || strings.TrimSpace(p.s[p.i:]) != "" {
			return nil, nil, fmt.Errorf("cannot re-parse %q", ln)
		}
		names = append(names, ln[:i])
		rules[ln[:i]] = g
	}
	return
}

type tgParser struct {
	s   string
	i   int
	err error
}

func (p *tgParser) ws() {
	for p.i < len(p.s) && p.s[p.i] == ' ' {
		p.i++
	}
}
func (p *tgParser) peek() byte {
	p.ws()
	if p.i < len(p.s) {
		return p.s[p.i]
	}
	return 0
}
func (p *tgParser) choice() *gen.TG {
	k := []*gen.TG{p.seq()}
	for p.peek() == '|' {
		p.i++
		k = append(k, p.seq())
	}
	if len(k) == 1 {
		return k[0]
	}
	return gen.TChoice(k...)
}
func (p *tgParser) seq() *gen.TG {
	var k []*gen.TG
	for {
		c := p.peek()
		if c == 0 || c == '|' || c == ')' {
			break
		}
		k = append(k, p.list())
	}
	if len(k) == 1 {
		return k[0]
	}
	if len(k) == 0 {
		p.err = fmt.Errorf("empty")
		return gen.TIdent("INT")
	}
	return gen.TSeq(k...)
}
func (p *tgParser) list() *gen.TG {
	x := p.adj()
	for p.peek() == '%' {
		p.i++
		x = gen.TBin("%", x, p.adj())
	}
	return x
}
func (p *tgParser) adj() *gen.TG {
	x := p.unary()
	for p.peek() == '+' && p.i+1 < len(p.s) && p.s[p.i+1] == '+' {
		p.i += 2
		x = gen.TBin("++", x, p.unary())
	}
	return x
}
func (p *tgParser) unary() *gen.TG {
	c := p.peek()
	switch {
	case c == '*' || c == '?' || (c == '+' && !(p.i+1 < len(p.s) && p.s[p.i+1] == '+')):
		p.i++
		return gen.TUn(string(c), p.unary())
	case c == '(':
		p.i++
		g := p.choice()
		if p.peek() != ')' {
			p.err = fmt.Errorf("expected )")
		} else {
			p.i++
		}
		return g
	case c == '"' || c == '\'' || c == '`':
		j := p.i + 1
		for j < len(p.s) && p.s[j] != c {
			if p.s[j] == '\\' {
				j++
			}
			j++
		}
		t := p.s[p.i : j+1]
		p.i = j + 1
		return gen.TLit(t)
	}
	j := p.i
	for j < len(p.s) && (p.s[j] == '_' || p.s[j] >= '0' && p.s[j] <= '9' || p.s[j] >= 'a' && p.s[j] <= 'z' || p.s[j] >= 'A' && p.s[j] <= 'Z') {
		j++
	}
	if j == p.i {
		p.err = fmt.Errorf("unexpected %q", p.s[p.i:])
		p.i = len(p.s)
		return gen.TIdent("INT")
	}
	t := p.s[p.i:j]
	p.i = j
	return gen.TIdent(t)
}

func (p *c29) Run(c fw.Case, r *fw.Rec) {
	gsrc := string(c.In)
	in := c.Aux[0]
	names, rules, err := c29ParseGrammar(gsrc)
	if err != nil {
		r.Skip("harness-grammar-reparse")
		return
	}
	// round-trip sanity of the harness's own parser/printer
	for _, n := range names {
		if rules[n].String() != strings.TrimSpace(gsrc[strings.Index(gsrc, n+" = ")+len(n)+3:][:strings.Index(gsrc[strings.Index(gsrc, n+" = ")+len(n)+3:], "\n")]) {
			r.Skip("harness-printer-roundtrip")
			return
		}
	}
	var cl tpl.Compiler
	if fw.Guard(r, "tpl.New", func() { cl, err = tpl.New(gsrc) }) {
		return
	}
	if err != nil {
		r.Fail("tpl.New:valid-grammar-rejected", "generated grammar rejected: %v\n%s", err, gsrc)
		return
	}
	// tokens by the real scanner
	fset := gotoken.NewFileSet()
	f := fset.AddFile("in.txt", fset.Base(), len(in))
	var s tplscanner.Scanner
	s.Init(f, []byte(in), nil, 0)
	var toks []*tpltypes.Token
	for {
		t := s.Scan()
		if t.Tok == tpltoken.EOF {
			break
		}
		toks = append(toks, &t)
	}
	ref := &c29ref{rules: rules, toks: toks}
	wantOK, wantN, wantRes := ref.match(rules[names[0]], 0)
	if ref.ambiguous {
		r.Skip("choice-commit-vs-later-nullable-alternative(README-silent)")
		return
	}
	if c29HasNullableAlt(ref, rules) {
		r.Cover("nullable-alternative")
	}
	// implementation
	var ms tpl.MatchState
	var result any
	var merr error
	matcher.VerifReset(5000000)
	paniced := false
	func() {
		defer func() {
			matcher.VerifReset(0)
			if e := recover(); e != nil {
				paniced = true
				st := stackOf()
				r.Fail("match:"+fw.SiteFromPanic(e, st), "panic during Match of grammar\n%s\non %q: %v\n%s", gsrc, in, e, trimStack(st))
			}
		}()
		ms, result, merr = cl.Match("in.txt", in, &tpl.Config{Fset: fset})
	}()
	if paniced {
		return
	}
	for _, op := range []struct{ k, s string }{{"seq", " "}, {"choice", " | "}, {"*", "*"}, {"+", "+"}, {"?", "?"}, {"%", " % "}, {"++", " ++ "}} {
		if strings.Contains(gsrc, op.s) {
			r.Cover("op:" + op.k)
		}
	}
	if strings.Contains(gsrc, `"if" `) && strings.Contains(gsrc, "| IDENT") {
		r.Cover("kw-vs-ident-choice")
	}
	gotOK := merr == nil
	if gotOK != wantOK {
		site := "match:accepts-but-reference-rejects"
		if wantOK {
			site = "match:rejects-but-reference-accepts"
		}
		r.Fail(site, "grammar\n%sinput %q\nimplementation: ok=%v n=%d err=%v\nreference (README semantics): ok=%v n=%d result=%s", gsrc, in, gotOK, ms.N, merr, wantOK, wantN, wantRes)
		return
	}
	if !wantOK {
		r.Cover("agree:fail")
		if strings.Contains(gsrc, " ++ ") && strings.Contains(fmt.Sprint(merr), "not adjoin") {
			r.Cover("adjoin:gap-rejected")
		}
		if len(toks) >= 2 {
			r.NonTrivial()
		}
		return
	}
	// fset positions: reference used toks with Pos from the same scanner run? Match re-scans with its own file in fset:
	// positions differ by the file base; normalise through offsets.
	base2 := 0
	if len(ms.Toks) > 0 && len(toks) > 0 {
		base2 = int(ms.Toks[0].Pos) - int(toks[0].Pos)
	}
	got := c29RenderOff(result, base2)
	if ms.N != wantN {
		r.Fail("match:consumed-count-differs", "grammar\n%sinput %q\nimplementation consumed %d tokens, reference %d (result impl=%s ref=%s)", gsrc, in, ms.N, wantN, got, wantRes)
		return
	}
	if got != wantRes {
		r.Fail("match:result-tree-differs", "grammar\n%sinput %q\nimplementation result %s\nreference result      %s", gsrc, in, got, wantRes)
		return
	}
	r.Cover("agree:match")
	if strings.Contains(gsrc, " ++ ") {
		r.Cover("adjoin:touching-ok")
	}
	if len(toks) >= 2 {
		r.NonTrivial()
		r.Sample(map[string]string{"grammar": gsrc, "input": in, "result": got})
	}
}

func c29RenderOff(v any, off int) string {
	switch v := v.(type) {
	case nil:
		return "nil"
	case *tpltypes.Token:
		return fmt.Sprintf("#%d", int(v.Pos)-off)
	case []any:
		parts := make([]string, len(v))
		for i, x := range v {
			parts[i] = c29RenderOff(x, off)
		}
		return "[" + strings.Join(parts, " ") + "]"
	}
	return fmt.Sprintf("<%T>", v)
}

func c29HasNullableAlt(m *c29ref, rules map[string]*gen.TG) bool {
	var walk func(t *gen.TG) bool
	walk = func(t *gen.TG) bool {
		if t.Kind == "choice" {
			for _, k := range t.Kids {
				if m.nullable(k, 0) {
					return true
				}
			}
		}
		for _, k := range t.Kids {
			if walk(k) {
				return true
			}
		}
		return false
	}
	for _, b := range rules {
		if walk(b) {
			return true
		}
	}
	return false
}
