// Package checks holds one monitor per property (sequential properties).
package checks

import (
	"verif/fw"
)

// Base carries the boilerplate of fw.Prop.
type Base struct {
	Id     string
	Lvl    string
	RuleS  string
	Assume []string
	Env    *fw.Env
	N      int
	Floor  map[string]int
}

func (b *Base) ID() string             { return b.Id }
func (b *Base) Level() string          { return b.Lvl }
func (b *Base) Rule() string           { return b.RuleS }
func (b *Base) Assumptions() []string  { return b.Assume }
func (b *Base) NumCases() int          { return b.N }
func (b *Base) Floors() map[string]int { return b.Floor }
func (b *Base) rnd(i int) *fw.Rand     { return b.Env.Rand(b.Id, i) }
