package checks

import (
	"fmt"
	"os"
	"path/filepath"
	"sort"
	"strings"
	"time"

	"github.com/goplus/mod/env"
	"github.com/goplus/mod/xgomod"
	"github.com/goplus/xgo/token"
	"github.com/goplus/xgo/tool"

	"verif/fw"
)

// C36 — the import cache key changes exactly when package sources change (history + model).
type c36 struct{ Base }

func init() { fw.Register(&c36{Base: Base{Id: "C36", Lvl: "exploration"}}) }

func (p *c36) Setup(env *fw.Env) error {
	p.Env = env
	p.N = env.Pick(400, 20000)
	p.RuleS = "random histories of 40..120 file-system operations on a real temporary module package directory: create / append / truncate / rewrite-same-size+chtimes / chtimes-only / rename (also between compilable and non-compilable names) / delete / mkdir (also with source-like names) / create-in-subdirectory / chmod, over compilable names (.go .xgo .gop .gox), underscore names and non-compilable names; sizes and mtimes are drawn from small sets (collisions are frequent) and mtimes are set explicitly with Chtimes. After every operation Importer.PkgHash(pkg, self) is recorded with the model state {(name,size,mtime) | compilable, non-underscore, regular}. Oracle over all pairs of points of a history: equal model states <=> equal hashes. Non-trivial = history with >=3 distinct model states."
	p.Assume = []string{"content edits that keep size and mtime, symlinks and special files are outside the property and not generated", "the oracle never reads the clock: mtimes come from the generator"}
	p.Floor = map[string]int{"#evaluations": p.N / 2, "#nontrivial": p.N / 4, "points": p.N * 30, "op:create": 1000, "op:append": 500, "op:truncate": 300, "op:rewrite": 300, "op:chtimes": 500, "op:rename": 500, "op:delete": 500, "op:mkdir": 200, "op:subfile": 200, "op:chmod": 100, "state-revisited": 500, "state-changed-by-relevant": 2000, "state-kept-by-irrelevant": 2000}
	return nil
}

func (p *c36) Case(i int) fw.Case {
	return fw.Case{Kind: "history", P: map[string]string{"n": fmt.Sprint(40 + i%81)}}
}

var c36Names = []string{"a.go", "b.go", "m.xgo", "n.gop", "k.gox", "_x.go", "_y.xgo", "README", "notes.txt", "c.md", "data.json", "a.go.bak", "z.GO", "go.sum", "t_test.go", ".hidden.go", "round_rect.gox", "my_lib.xgo", "a_b.go", "x_test.gox"}

func c36Compilable(name string) bool {
	if strings.HasPrefix(name, "_") {
		return false
	}
	switch filepath.Ext(name) {
	case ".go", ".xgo", ".gop", ".gox":
		return true
	}
	return false
}

func (p *c36) Run(c fw.Case, r *fw.Rec) {
	var nops int
	fmt.Sscan(c.P["n"], &nops)
	rnd := p.rnd(c.Idx)
	root, err := os.MkdirTemp(p.Env.Scratch, "c36-")
	if err != nil {
		r.Inconclusive("mkdtemp: " + err.Error())
		return
	}
	defer os.RemoveAll(root)
	os.WriteFile(filepath.Join(root, "go.mod"), []byte("module example.com/m\n\ngo 1.18\n"), 0o644)
	dir := filepath.Join(root, "p")
	os.Mkdir(dir, 0o755)
	mod, err := xgomod.Load(root)
	if err != nil {
		r.Inconclusive("xgomod.Load: " + err.Error())
		return
	}
	imp := tool.NewImporter(mod, &env.XGo{Version: "1.0", Root: p.Env.Repo}, token.NewFileSet())
	self := rnd.Bool()
	base := time.Unix(1700000000, 0)
	mt := func() time.Time {
		return base.Add(time.Duration(rnd.Intn(4))*time.Second + time.Duration(rnd.Intn(3))*time.Nanosecond*1000)
	}
	type fstate struct {
		size int64
		mt   time.Time
	}
	files := map[string]fstate{} // model of regular files in dir (all names)
	dirs := map[string]bool{}
	write := func(name string, size int, t time.Time) {
		fn := filepath.Join(dir, name)
		os.WriteFile(fn, []byte(strings.Repeat("x", size)), 0o644)
		os.Chtimes(fn, t, t)
		files[name] = fstate{int64(size), t}
	}
	modelState := func() string {
		var keys []string
		for n, s := range files {
			if c36Compilable(n) {
				keys = append(keys, fmt.Sprintf("%s:%d:%d", n, s.size, s.mt.UnixNano()))
			}
		}
		sort.Strings(keys)
		return strings.Join(keys, ",")
	}
	existing := func() []string {
		var ns []string
		for n := range files {
			ns = append(ns, n)
		}
		sort.Strings(ns)
		return ns
	}
	stateToHash := map[string]string{}
	hashToState := map[string]string{}
	var trace []string
	prevState := ""
	record := func(op string) bool {
		var h string
		if fw.Guard(r, "tool.PkgHash", func() { h = imp.PkgHash("example.com/m/p", self) }) {
			return false
		}
		st := modelState()
		trace = append(trace, fmt.Sprintf("%s => state{%s} hash=%.10s", op, st, h))
		r.Cover("points")
		if st == prevState {
			r.Cover("state-kept-by-irrelevant")
		} else {
			r.Cover("state-changed-by-relevant")
		}
		prevState = st
		if old, ok := stateToHash[st]; ok {
			r.Cover("state-revisited")
			if old != h {
				r.Fail("pkghash:same-sources-different-hash", "the same set of (name,size,mtime) of compilable files gave two hashes %.12s / %.12s\nstate: {%s}\nlast op: %s\ntrace tail:\n%s", old, h, st, op, tail(trace, 12))
				return false
			}
		} else {
			stateToHash[st] = h
		}
		if old, ok := hashToState[h]; ok && old != st {
			r.Fail("pkghash:different-sources-same-hash:"+opKind(op), "two different source states share the hash %.12s\nstate A: {%s}\nstate B: {%s}\nlast op: %s\ntrace tail:\n%s", h, old, st, op, tail(trace, 12))
			return false
		}
		hashToState[h] = st
		return true
	}
	if !record("init") {
		return
	}
	for k := 0; k < nops; k++ {
		ex := existing()
		op := ""
		switch o := rnd.Intn(13); {
		case o < 3 || len(ex) == 0:
			name := fw.Pick(rnd, c36Names)
			if dirs[name] {
				continue
			}
			size, t := rnd.Intn(4)*5, mt()
			write(name, size, t)
			op = fmt.Sprintf("create %s size=%d", name, size)
			r.Cover("op:create")
		case o == 3:
			name := fw.Pick(rnd, ex)
			s := files[name]
			write(name, int(s.size)+rnd.Range(1, 3), mt())
			op = "append " + name
			r.Cover("op:append")
		case o == 4:
			name := fw.Pick(rnd, ex)
			write(name, int(files[name].size)/2, mt())
			op = "truncate " + name
			r.Cover("op:truncate")
		case o == 5:
			name := fw.Pick(rnd, ex)
			write(name, int(files[name].size), mt())
			op = "rewrite-same-size " + name
			r.Cover("op:rewrite")
		case o == 6 || o == 7:
			name := fw.Pick(rnd, ex)
			t := mt()
			os.Chtimes(filepath.Join(dir, name), t, t)
			files[name] = fstate{files[name].size, t}
			op = "chtimes " + name
			r.Cover("op:chtimes")
		case o == 8:
			from := fw.Pick(rnd, ex)
			to := fw.Pick(rnd, c36Names)
			if to == from || dirs[to] {
				continue
			}
			if os.Rename(filepath.Join(dir, from), filepath.Join(dir, to)) == nil {
				files[to] = files[from]
				delete(files, from)
			}
			op = "rename " + from + " -> " + to
			r.Cover("op:rename")
		case o == 9:
			name := fw.Pick(rnd, ex)
			os.Remove(filepath.Join(dir, name))
			delete(files, name)
			op = "delete " + name
			r.Cover("op:delete")
		case o == 10:
			name := fw.Pick(rnd, []string{"sub", "x.go", "d.xgo", "internal"})
			if _, isFile := files[name]; isFile {
				continue
			}
			os.Mkdir(filepath.Join(dir, name), 0o755)
			dirs[name] = true
			op = "mkdir " + name
			r.Cover("op:mkdir")
		case o == 11:
			var ds []string
			for d := range dirs {
				ds = append(ds, d)
			}
			if len(ds) == 0 {
				continue
			}
			sort.Strings(ds)
			d := fw.Pick(rnd, ds)
			os.WriteFile(filepath.Join(dir, d, fw.Pick(rnd, []string{"q.go", "r.xgo"})), []byte(strings.Repeat("y", rnd.Intn(9))), 0o644)
			op = "create-in-subdir " + d
			r.Cover("op:subfile")
		default:
			name := fw.Pick(rnd, ex)
			os.Chmod(filepath.Join(dir, name), fw.Pick(rnd, []os.FileMode{0o600, 0o644, 0o755}))
			op = "chmod " + name
			r.Cover("op:chmod")
		}
		if !record(op) {
			return
		}
	}
	if len(stateToHash) >= 3 {
		r.NonTrivial()
		r.DistinctKey(strings.Join(trace, "\n"))
		r.Sample(map[string]any{"ops": nops, "distinct_states": len(stateToHash), "trace_head": trace[:min(6, len(trace))]})
	}
}

func opKind(op string) string {
	if i := strings.IndexByte(op, ' '); i > 0 {
		return op[:i]
	}
	return op
}

func tail(s []string, n int) string {
	if len(s) > n {
		s = s[len(s)-n:]
	}
	return strings.Join(s, "\n")
}
