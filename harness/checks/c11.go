package checks

import (
	"fmt"
	goast "go/ast"
	goparser "go/parser"
	gotoken "go/token"
	"strings"

	"verif/fw"
)

// C11 — a normal .gox class file behaves like its explicit struct form.
type c11 struct {
	Base
}

func init() { fw.Register(&c11{Base: Base{Id: "C11", Lvl: "exploration"}}) }

func (p *c11) Setup(env *fw.Env) error {
	p.Env = env
	xgocWarm(env)
	p.N = env.Pick(40, 1500)
	p.RuleS = "each case is a package of 1-3 generated .gox class files (a var block of 2-7 fields over int, string, float64, bool, []int, map[string]int, a pointer to another class, grouped names, exported and unexported; 3-8 methods with parameters, variadics, multiple and named results, bare and this-qualified field access, parameters shadowing fields, calls of sibling methods, closures over fields, loops) plus a main program that drives every method and prints results and fields; the reference is the same program with each class written as an explicit struct with pointer-receiver methods (receiver this), built by the Go toolchain. Oracle: same stdout/exit status/panic line, and (static, on the written Go source) the generated type has exactly the declared fields in order with the declared types and exactly the declared methods with receiver `this *Class`."
	p.Assume = []string{"method bodies are written in Go syntax so that the reference is the same text with fields qualified by this."}
	p.Floor = map[string]int{"#evaluations": p.N * 9 / 10, "#nontrivial": p.N * 8 / 10, "pairs-executed": p.N * 8 / 10, "stdout-lines-compared": p.N * 8, "classes-type-checked": p.N, "methods-generated": p.N * 4, "feature:field-shadowed-by-parameter": p.N / 3, "feature:sibling-method-call": p.N / 2, "feature:pointer-to-other-class": p.N / 4, "feature:package-function-named-like-method": p.N / 4}
	return nil
}

func (p *c11) Case(i int) fw.Case { return fw.Case{Kind: "classes"} }

type c11field struct{ name, ty string }

type c11class struct {
	name    string
	fields  []c11field
	groups  [][]int // indices grouped in one var spec
	methods []string
	gox     strings.Builder // methods in class-file form
	ref     strings.Builder // methods in explicit form
	drive   strings.Builder
}

func (p *c11) Run(c fw.Case, r *fw.Rec) {
	pairWorker(p.Env, p.Id, c, r, p.build(c, r))
}

func (p *c11) build(c fw.Case, r *fw.Rec) pairBuild {
	rnd := p.rnd(c.Idx)
	nc := rnd.Range(1, 3)
	classNames := []string{"Rect", "Acct", "Node"}[:nc]
	var classes []*c11class
	for ci, cn := range classNames {
		cl := &c11class{name: cn}
		pool := []c11field{{"n", "int"}, {"name", "string"}, {"x", "float64"}, {"ok", "bool"}, {"vals", "[]int"}, {"m", "map[string]int"}, {"Count", "int"}, {"Label", "string"}, {"w", "float64"}, {"h", "float64"}}
		// always n, name, vals so that the method templates apply; others random
		cl.fields = append(cl.fields, pool[0], pool[1], pool[4])
		for _, i := range rnd.Perm(len(pool)) {
			if i != 0 && i != 1 && i != 4 && rnd.Chance(1, 2) && len(cl.fields) < 7 {
				cl.fields = append(cl.fields, pool[i])
			}
		}
		if ci > 0 && rnd.Chance(2, 3) {
			cl.fields = append(cl.fields, c11field{"peer", "*" + classNames[ci-1]})
			r.Cover("feature:pointer-to-other-class")
		}
		// shuffle field order
		perm := rnd.Perm(len(cl.fields))
		fs := make([]c11field, len(cl.fields))
		for i, j := range perm {
			fs[i] = cl.fields[j]
		}
		cl.fields = fs
		has := func(n string) bool {
			for _, f := range cl.fields {
				if f.name == n {
					return true
				}
			}
			return false
		}
		// group adjacent fields of the same type into one spec sometimes
		for i := 0; i < len(cl.fields); i++ {
			g := []int{i}
			for i+1 < len(cl.fields) && cl.fields[i+1].ty == cl.fields[i].ty && rnd.Chance(2, 3) {
				i++
				g = append(g, i)
			}
			cl.groups = append(cl.groups, g)
		}
		// f(name) renders a field access in the class file (bare or this.) — always this. in the reference
		q := func(n string) [2]string {
			if rnd.Chance(1, 3) {
				return [2]string{"this." + n, "this." + n}
			}
			return [2]string{n, "this." + n}
		}
		emit := func(mname, sig, goxBody, refBody string) {
			cl.methods = append(cl.methods, mname)
			fmt.Fprintf(&cl.gox, "func %s%s {\n%s}\n\n", mname, sig, goxBody)
			fmt.Fprintf(&cl.ref, "func (this *%s) %s%s {\n%s}\n\n", cn, mname, sig, refBody)
			r.Cover("methods-generated")
		}
		two := func(format string, names ...string) (string, string) {
			a, b := format, format
			for _, n := range names {
				qq := q(n)
				a = strings.Replace(a, "@"+n, qq[0], -1)
				b = strings.Replace(b, "@"+n, qq[1], -1)
			}
			return a, b
		}
		v := strings.ToLower(cn[:1])
		drv := &cl.drive
		fmt.Fprintf(drv, "\t%s := &%s{name: \"%s\", n: %d}\n", v, cn, strings.ToLower(cn), rnd.Range(1, 9))
		{
			a, b := two("\t@n += d\n", "n")
			emit("Add", "(d int)", a, b)
			fmt.Fprintf(drv, "\t%s.Add(%d)\n", v, rnd.Range(1, 5))
		}
		{
			a, b := two("\treturn @n\n", "n")
			emit("Get", "() int", a, b)
			fmt.Fprintf(drv, "\tfmt.Println(\"%s.Get\", %s.Get())\n", cn, v)
		}
		if rnd.Chance(3, 4) {
			a, b := two("\treturn @name + \":\" + strconv.Itoa(@n)\n", "name", "n")
			emit("Describe", "() string", a, b)
			fmt.Fprintf(drv, "\tfmt.Println(\"%s.Describe\", %s.Describe())\n", cn, v)
		}
		if rnd.Chance(3, 4) {
			a, b := two("\t@vals = append(@vals, vs...)\n\treturn len(@vals)\n", "vals")
			emit("Push", "(vs ...int) int", a, b)
			fmt.Fprintf(drv, "\tfmt.Println(\"%s.Push\", %s.Push(%d, %d), %s.Push())\n", cn, v, rnd.Intn(9), rnd.Intn(9), v)
		}
		if rnd.Chance(2, 3) {
			a, b := two("\tfor _, v := range @vals {\n\t\ts += v\n\t}\n\treturn\n", "vals")
			emit("Sum", "() (s int)", a, b)
			fmt.Fprintf(drv, "\tfmt.Println(\"%s.Sum\", %s.Sum())\n", cn, v)
		}
		if has("m") && rnd.Chance(3, 4) {
			a, b := two("\tif @m == nil {\n\t\t@m = map[string]int{}\n\t}\n\t@m[k] = v\n", "m")
			emit("Set", "(k string, v int)", a, b)
			fmt.Fprintf(drv, "\t%s.Set(\"a\", %d)\n\t%s.Set(\"b\", 2)\n\tfmt.Println(\"%s.m\", %s.m)\n", v, rnd.Intn(9), v, cn, v)
		}
		if rnd.Chance(2, 3) {
			r.Cover("feature:field-shadowed-by-parameter")
			emit("SetN", "(n int, name string)", "\tthis.n = n\n\tthis.name = name + \"!\"\n", "\tthis.n = n\n\tthis.name = name + \"!\"\n")
			fmt.Fprintf(drv, "\t%s.SetN(%d, \"z\")\n", v, rnd.Range(10, 20))
		}
		if rnd.Chance(3, 4) {
			r.Cover("feature:sibling-method-call")
			sib := "Add(1)\n\treturn Get() * 2"
			if rnd.Chance(1, 2) {
				sib = "this.Add(1)\n\treturn this.Get() * 2"
			}
			emit("Twice", "() int", "\t"+sib+"\n", "\tthis.Add(1)\n\treturn this.Get() * 2\n")
			fmt.Fprintf(drv, "\tfmt.Println(\"%s.Twice\", %s.Twice())\n", cn, v)
		}
		if rnd.Chance(2, 3) {
			a, b := two("\treturn @n, @name\n", "n", "name")
			emit("Both", "() (int, string)", a, b)
			fmt.Fprintf(drv, "\tfmt.Println(%s.Both())\n", v)
		}
		if has("w") && has("h") {
			a, b := two("\treturn @w * @h\n", "w", "h")
			emit("Area", "() float64", a, b)
			fmt.Fprintf(drv, "\t%s.w, %s.h = 1.5, 4\n\tfmt.Println(\"%s.Area\", %s.Area())\n", v, v, cn, v)
		}
		if has("Count") && rnd.Chance(3, 4) {
			a, b := two("\tinc := func() {\n\t\t@Count++\n\t}\n\tfor i := 0; i < k; i++ {\n\t\tinc()\n\t}\n\treturn @Count\n", "Count")
			emit("Bump", "(k int) int", a, b)
			fmt.Fprintf(drv, "\tfmt.Println(\"%s.Bump\", %s.Bump(%d), %s.Count)\n", cn, v, rnd.Range(1, 4), v)
		}
		if has("ok") && has("x") {
			a, b := two("\tif @ok {\n\t\treturn @x\n\t}\n\t@ok = true\n\t@x = float64(@n) / 2\n\treturn -1\n", "ok", "x", "n")
			emit("Toggle", "() float64", a, b)
			fmt.Fprintf(drv, "\tfmt.Println(\"%s.Toggle\", %s.Toggle(), %s.Toggle())\n", cn, v, v)
		}
		if has("peer") {
			a, b := two("\tif @peer == nil {\n\t\treturn -1\n\t}\n\treturn @peer.Get() + @n\n", "peer", "n")
			emit("WithPeer", "() int", a, b)
			pv := strings.ToLower(classNames[ci-1][:1])
			fmt.Fprintf(drv, "\tfmt.Println(\"%s.WithPeer\", %s.WithPeer())\n\t%s.peer = %s\n\tfmt.Println(\"%s.WithPeer\", %s.WithPeer())\n", cn, v, v, pv, cn, v)
		}
		fmt.Fprintf(drv, "\tfmt.Printf(\"%s %%v %%q %%v\\n\", %s.n, %s.name, %s.vals)\n", cn, v, v, v)
		classes = append(classes, cl)
	}
	xgo := map[string]string{}
	var ref strings.Builder
	ref.WriteString("package main\n\nimport (\n\t\"fmt\"\n\t\"strconv\"\n)\n\nvar _ = strconv.Itoa\n\n")
	var mainBody strings.Builder
	for cix, cl := range classes {
		var gox strings.Builder
		if strings.Contains(cl.gox.String(), "strconv.") {
			gox.WriteString("import \"strconv\"\n\n")
		}
		// declarations may precede the var block: it is still the class's field list
		switch (c.Idx + cix) % 3 {
		case 1:
			fmt.Fprintf(&gox, "const lim%s = 3\n\n", cl.name)
			fmt.Fprintf(&ref, "const lim%s = 3\n\n", cl.name)
			r.Cover("class-file:const-before-var-block")
		case 2:
			fmt.Fprintf(&gox, "type aux%s int\n\n", cl.name)
			fmt.Fprintf(&ref, "type aux%s int\n\n", cl.name)
			r.Cover("class-file:type-before-var-block")
		}
		gox.WriteString("var (\n")
		fmt.Fprintf(&ref, "type %s struct {\n", cl.name)
		for _, g := range cl.groups {
			var names []string
			for _, i := range g {
				names = append(names, cl.fields[i].name)
			}
			fmt.Fprintf(&gox, "\t%s %s\n", strings.Join(names, ", "), cl.fields[g[0]].ty)
			fmt.Fprintf(&ref, "\t%s %s\n", strings.Join(names, ", "), cl.fields[g[0]].ty)
		}
		gox.WriteString(")\n\n")
		ref.WriteString("}\n\n")
		gox.WriteString(cl.gox.String())
		ref.WriteString(cl.ref.String())
		xgo[cl.name+".gox"] = gox.String()
		mainBody.WriteString(cl.drive.String())
	}
	// package-level functions named like class methods: a bare call inside a class method still means the sibling method
	pkgFuncs := ""
	if rnd.Chance(1, 2) {
		pkgFuncs = "func Get() int { return -1000 }\n\nfunc Add(d int) { fmt.Println(\"package-level Add\", d) }\n\n"
		mainBody.WriteString("\tAdd(Get())\n")
		r.Cover("feature:package-function-named-like-method")
	}
	mainSrc := pkgFuncs + "func main() {\n" + mainBody.String() + "}\n"
	xgo["main.xgo"] = "import \"fmt\"\n\n" + mainSrc
	ref.WriteString(mainSrc)
	return pairBuild{
		Ref:      map[string]string{"main.go": ref.String()},
		XGo:      xgo,
		CheckOut: func(out []byte, r *fw.Rec) { c11StaticShape(out, classes, r) },
	}
}

// c11StaticShape: the written type has exactly the declared fields (order, types) and methods (receiver this *C).
func c11StaticShape(out []byte, classes []*c11class, r *fw.Rec) {
	fset := gotoken.NewFileSet()
	f, err := goparser.ParseFile(fset, "xgo_autogen.go", out, 0)
	if err != nil {
		return
	}
	for _, cl := range classes {
		var st *goast.StructType
		methods := map[string]bool{}
		for _, d := range f.Decls {
			switch d := d.(type) {
			case *goast.GenDecl:
				for _, sp := range d.Specs {
					if ts, ok := sp.(*goast.TypeSpec); ok && ts.Name.Name == cl.name {
						st, _ = ts.Type.(*goast.StructType)
					}
				}
			case *goast.FuncDecl:
				if d.Recv == nil || len(d.Recv.List) != 1 {
					continue
				}
				se, ok := d.Recv.List[0].Type.(*goast.StarExpr)
				if !ok {
					if id, ok := d.Recv.List[0].Type.(*goast.Ident); ok && id.Name == cl.name {
						r.Fail("class-shape:value-receiver", "method %s.%s has a value receiver", cl.name, d.Name.Name)
					}
					continue
				}
				if id, ok := se.X.(*goast.Ident); ok && id.Name == cl.name {
					methods[d.Name.Name] = true
					if len(d.Recv.List[0].Names) != 1 || d.Recv.List[0].Names[0].Name != "this" {
						r.Fail("class-shape:receiver-name", "method %s.%s: receiver is not named this", cl.name, d.Name.Name)
					}
				}
			}
		}
		if st == nil {
			r.Fail("class-shape:type-missing", "no struct type %s in the output", cl.name)
			continue
		}
		r.Cover("classes-type-checked")
		var got []string
		for _, fl := range st.Fields.List {
			ty := c11TypeString(fl.Type)
			if len(fl.Names) == 0 {
				got = append(got, "(embedded) "+ty)
			}
			for _, n := range fl.Names {
				got = append(got, n.Name+" "+ty)
			}
		}
		var want []string
		for _, fl := range cl.fields {
			want = append(want, fl.name+" "+fl.ty)
		}
		if strings.Join(got, "; ") != strings.Join(want, "; ") {
			r.Fail("class-shape:fields-differ", "type %s: declared fields [%s], generated struct has [%s]", cl.name, strings.Join(want, "; "), strings.Join(got, "; "))
		}
		for _, m := range cl.methods {
			if !methods[m] {
				r.Fail("class-shape:method-missing", "type %s: declared method %s is missing", cl.name, m)
			}
			delete(methods, m)
		}
		for m := range methods {
			r.Fail("class-shape:extra-method", "type %s: the output has a method %s the class file does not declare", cl.name, m)
		}
	}
}

func c11TypeString(e goast.Expr) string {
	switch t := e.(type) {
	case *goast.Ident:
		return t.Name
	case *goast.StarExpr:
		return "*" + c11TypeString(t.X)
	case *goast.ArrayType:
		return "[]" + c11TypeString(t.Elt)
	case *goast.MapType:
		return "map[" + c11TypeString(t.Key) + "]" + c11TypeString(t.Value)
	}
	return fmt.Sprintf("%T", e)
}

func (p *c11) PostRun(env *fw.Env, d *fw.Driver) {
	pairPostRun(env, d, p.Id, nil)
}
