package checks

import (
	"runtime"
	"strings"
)

func stackOf() []byte {
	buf := make([]byte, 32<<10)
	buf = buf[:runtime.Stack(buf, false)]
	s := string(buf)
	if i := strings.LastIndex(s, "\npanic("); i >= 0 {
		s = s[i:]
	}
	return []byte(s)
}

func trimStack(st []byte) string {
	ls := strings.SplitN(string(st), "\n", 26)
	if len(ls) > 25 {
		ls = ls[:25]
	}
	return strings.Join(ls, "\n")
}

func sortStrings(s []string) {
	for i := 1; i < len(s); i++ {
		for j := i; j > 0 && s[j] < s[j-1]; j-- {
			s[j], s[j-1] = s[j-1], s[j]
		}
	}
}

func hasBadStr(n interface {
	Pos() gotokenPos
	End() gotokenPos
}) string {
	return oracleHasBad(n)
}
