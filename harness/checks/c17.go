package checks

import (
	"fmt"
	"github.com/goplus/xgo/token"
	goparser "go/parser"
	gotoken "go/token"
	"os"
	"reflect"
	"sort"
	"strings"

	"github.com/goplus/xgo/ast"
	"github.com/goplus/xgo/parser"

	"verif/corpus"
	"verif/fw"
	"verif/gen"
	"verif/oracle"
)

// C17 — every AST node's span is exact and nested (structural invariant, calibrated against go/ast).
type c17 struct {
	Base
	nPool   int
	goFiles []corpus.File
}

func init() { fw.Register(&c17{Base: Base{Id: "C17", Lvl: "exploration"}}) }

// reparse check applies to these context-free expression kinds
var c17Reparse = map[string]bool{"Ident": true, "BasicLit": true, "ParenExpr": true, "SelectorExpr": true, "IndexExpr": true, "SliceExpr": true, "CallExpr": true, "UnaryExpr": true,
	"BinaryExpr": true, "StarExpr": true, "FuncLit": true, "CompositeLit": true, "SliceLit": true, "ComprehensionExpr": true, "ErrWrapExpr": true, "LambdaExpr": true,
	"LambdaExpr2": true, "EnvExpr": true, "DomainTextLit": true, "NumberUnitLit": true, "TypeAssertExpr": true,
	// type expressions re-parse through ParseExpr as well (a type whose Pos skips its leading "<-" re-parses to another type)
	"ChanType": true, "ArrayType": true, "MapType": true, "StructType": true, "InterfaceType": true}

func (p *c17) Setup(env *fw.Env) error {
	p.Env = env
	p.nPool = len(validXGoPool(env))
	p.goFiles = corpus.Go(env.Repo)
	p.N = p.nPool + env.Pick(4000, 120000)
	p.RuleS = fmt.Sprintf("every repository XGo/class file and harvested snippet that parses (%d), then generated XGo/class/Go files, re-spaced and comment-injected variants. For every node with valid positions: R1 Pos is the start of a real token, R2 End is the end of a real token, R3 every child span lies inside its parent's, R4 siblings in field order neither overlap nor go backwards, R5 for context-free expression kinds ParseExpr(src[pos:end]) is shape-equal to the node. Rules that go/ast itself breaks on go/parser trees of the repository's Go files (calibrated once, frozen in c17_exempt.go, printed in the evidence) are inherited conventions and exempt. Non-trivial = tree with >=20 nodes.", p.nPool)
	p.Assume = []string{"token extents come from the XGo scanner (monitored by C15/C16)", "synthetic nodes (shadow entry header, package name of files without package clause) are skipped"}
	p.Floor = map[string]int{"#evaluations": p.N / 2, "#nontrivial": 1500, "nodes-checked": 200000, "reparse-checked": 20000}
	for _, n := range c18NodeTypes {
		k := oracle.Kind(n)
		switch k {
		case "BadStmt", "BadDecl", "BadExpr", "IndexListExpr", "Package", "File", "EmptyStmt", "Comment", "CommentGroup":
		default:
			p.Floor["kind:"+k] = 3
		}
	}
	return nil
}

func (p *c17) Case(i int) fw.Case {
	if i < p.nPool {
		return fw.Case{Kind: "corpus", P: map[string]string{"i": fmt.Sprint(i)}}
	}
	r := p.rnd(i)
	if os.Getenv("VERIF_C17_CALIBRATE") != "" {
		if i%50 == 0 {
			return fw.Case{Kind: "calib", In: []byte("package p\n\nfunc f() {\n\tgoto L\nL:\n}\n\nfunc g() {\n\tfor {\n\t\tcontinue\n\tM:\n\t}\n}\n")}
		}
		f := fw.Pick(r, p.goFiles)
		if r.Bool() {
			return fw.Case{Kind: "calib", In: []byte((&gen.XSyn{R: r}).GoFile())}
		}
		return fw.Case{Kind: "calib", In: f.Src}
	}
	it, kind := astSource(p.Env, r, 1<<30)
	c := fw.Case{Kind: kind, In: it.Src}
	if it.Class {
		c.P = map[string]string{"class": "1"}
	}
	return c
}

type spanChecker struct {
	src      []byte
	base     int
	starts   map[int]bool
	ends     map[int]bool
	fail     func(key, msg string)
	nodes    int
	kinds    map[string]int
	skipNode func(n oracle.Node) bool

	inLiteral bool
}

func newSpanChecker(src []byte, base int) *spanChecker {
	sc := &spanChecker{src: src, base: base, starts: map[int]bool{}, ends: map[int]bool{}, kinds: map[string]int{}}
	for _, t := range scanTokens(src, true) {
		sc.starts[t.off] = true
		sc.ends[t.end] = true
	}
	return sc
}

func (sc *spanChecker) text(n oracle.Node) string {
	lo, hi := int(n.Pos())-sc.base, int(n.End())-sc.base
	if lo < 0 || hi > len(sc.src) || lo > hi {
		return fmt.Sprintf("<span %d:%d out of source>", lo, hi)
	}
	s := string(sc.src[lo:hi])
	if len(s) > 60 {
		s = s[:60] + "…"
	}
	return s
}

func (sc *spanChecker) check(n oracle.Node, parent oracle.Node) {
	if sc.skipNode != nil && sc.skipNode(n) {
		return
	}
	k := oracle.Kind(n)
	valid := n.Pos().IsValid() && n.End().IsValid()
	inLit := false
	if parent != nil && valid {
		pk := oracle.Kind(parent)
		// parts of an interpolated string and arguments of a domain text literal live inside one scanner token
		inLit = sc.inLiteral || pk == "BasicLit" || pk == "DomainTextLit" && k != "Ident"
	}
	if inLit {
		old := sc.inLiteral
		sc.inLiteral = true
		defer func() { sc.inLiteral = old }()
	}
	if valid && k == "EmptyStmt" && n.Pos() == n.End() {
		valid = false // implicit empty statement: zero width
	}
	if valid && inLit {
		sc.nodes++
		sc.kinds[k]++
		lo, hi := int(n.Pos())-sc.base, int(n.End())-sc.base
		if lo < 0 || hi > len(sc.src) || lo > hi {
			sc.fail("R0:"+k, fmt.Sprintf("%s span [%d,%d) is not inside the source (len %d)", k, lo, hi, len(sc.src)))
		}
	} else if valid {
		sc.nodes++
		sc.kinds[k]++
		lo, hi := int(n.Pos())-sc.base, int(n.End())-sc.base
		if lo < 0 || hi > len(sc.src) || lo > hi {
			sc.fail("R0:"+k, fmt.Sprintf("%s span [%d,%d) is not inside the source (len %d)", k, lo, hi, len(sc.src)))
		} else {
			if !sc.starts[lo] {
				sc.fail("R1:"+k, fmt.Sprintf("%s.Pos()=%d is not the start of a token; span text %q, context %q", k, lo, sc.text(n), ctx(sc.src, lo)))
			}
			if !sc.ends[hi] {
				sc.fail("R2:"+k, fmt.Sprintf("%s.End()=%d is not the end of a token; span text %q, context %q", k, hi, sc.text(n), ctx(sc.src, hi)))
			}
			// R6: the positions a node records for its own tokens (Lparen, Ellipsis, TokPos, Arrow …) lie inside its span
			for _, pf := range posFields(n) {
				off := int(pf.pos) - sc.base
				if off < lo || off > hi || off == hi && !c17EndMarker[pf.name] {
					sc.fail("R6:"+k+"."+pf.name, fmt.Sprintf("%s.%s=%d lies outside the node's span [%d,%d) %q, context %q", k, pf.name, off, lo, hi, sc.text(n), ctx(sc.src, off)))
				}
			}
		}
	}
	kids := oracle.Children(n, oracle.WalkOpts{Comments: false})
	var prev oracle.Node
	for _, c := range kids {
		if sc.skipNode != nil && sc.skipNode(c) {
			continue
		}
		if valid && c.Pos().IsValid() && c.End().IsValid() {
			ck := oracle.Kind(c)
			if c.Pos() < n.Pos() || c.End() > n.End() {
				sc.fail("R3:"+k+">"+ck, fmt.Sprintf("child %s %q [%d,%d) is not inside its parent %s %q [%d,%d)", ck, sc.text(c), int(c.Pos())-sc.base, int(c.End())-sc.base, k, sc.text(n), int(n.Pos())-sc.base, int(n.End())-sc.base))
			}
			if prev != nil && c.Pos() < prev.End() {
				sc.fail("R4:"+k+":"+oracle.Kind(prev)+","+ck, fmt.Sprintf("in %s %q: child %s %q starts at %d before the end %d of the preceding child %s %q", k, sc.text(n), ck, sc.text(c), int(c.Pos())-sc.base, int(prev.End())-sc.base, oracle.Kind(prev), sc.text(prev)))
			}
			prev = c
		}
		sc.check(c, n)
	}
}

func ctx(src []byte, off int) string {
	lo, hi := off-12, off+12
	if lo < 0 {
		lo = 0
	}
	if hi > len(src) {
		hi = len(src)
	}
	if off > len(src) {
		off = len(src)
	}
	return string(src[lo:off]) + "‸" + string(src[off:hi])
}

func (p *c17) Run(c fw.Case, r *fw.Rec) {
	if c.Kind == "calib" {
		p.calibrate(c, r)
		return
	}
	it := srcItem{Src: c.In, Class: c.P["class"] == "1"}
	if c.Kind == "corpus" {
		var i int
		fmt.Sscan(c.P["i"], &i)
		it = validXGoPool(p.Env)[i]
	}
	f, fset, ok := parseValid(it)
	if !ok {
		r.Skip("source-invalid")
		return
	}
	base := fset.File(f.Pos()).Base()
	if !f.Pos().IsValid() {
		r.Skip("empty-file")
		return
	}
	sc := newSpanChecker(it.Src, base)
	sc.skipNode = func(n oracle.Node) bool {
		switch x := n.(type) {
		case *ast.Ident:
			return f.NoPkgDecl && x == f.Name
		case *ast.FuncDecl:
			return false
		}
		return false
	}
	failed := false
	sc.fail = func(key, msg string) {
		if c17Exempt[key] || c17Exempt[key[:strings.IndexByte(key, ':')+1]+"*"] {
			r.Cover("exempt-hit:" + key)
			return
		}
		failed = true
		r.Fail("span:"+key, "%s", msg)
	}
	// walk declarations; a shadow-entry FuncDecl contributes only its body statements
	for _, d := range f.Decls {
		if fd, ok := d.(*ast.FuncDecl); ok && fd.Shadow {
			if fd.Body != nil {
				for _, s := range fd.Body.List {
					sc.check(s, nil)
				}
			}
			continue
		}
		sc.check(d, nil)
	}
	r.CoverN("nodes-checked", sc.nodes)
	for k := range sc.kinds {
		r.Cover("kind:" + k)
	}
	if failed {
		return
	}
	// R5: re-parse context-free expressions
	nre := 0
	oracle.Walk(f, oracle.WalkOpts{}, func(n oracle.Node, _ int) bool {
		if nre >= 60 || r.Failed() {
			return false
		}
		k := oracle.Kind(n)
		if !c17Reparse[k] || !n.Pos().IsValid() {
			return true
		}
		if ce, ok := n.(*ast.CallExpr); ok && ce.IsCommand() {
			return true // command-style calls are statements, not context-free expressions
		}
		if cl, ok := n.(*ast.CompositeLit); ok && cl.Type == nil {
			return true // untyped {…} literal depends on context
		}
		if id, ok := n.(*ast.Ident); ok && (id.Name == "" || !(id.Name[0] == '_' || id.Name[0] >= 'a' && id.Name[0] <= 'z' || id.Name[0] >= 'A' && id.Name[0] <= 'Z' || id.Name[0] >= 0x80)) {
			return true // operator name of an overloaded operator function
		}
		if bl, ok := n.(*ast.BasicLit); ok && bl.Extra != nil {
			return true // positions of interpolated parts are relative to the enclosing file
		}
		lo, hi := int(n.Pos())-base, int(n.End())-base
		if lo < 0 || hi > len(it.Src) || lo >= hi {
			return true
		}
		text := string(it.Src[lo:hi])
		if strings.Contains(text, "\n") && (strings.Contains(text, "//") || strings.Contains(text, "#") || strings.Contains(text, "/*")) {
			// a slice holding a comment and a line break is not context-free: where semicolons are inserted and whether
			// a bracket literal is read as rows depends on the nesting the node was parsed at; the re-parse rule
			// does not apply (the other span rules do)
			r.Cover("reparse-skipped:comment-and-line-break-inside-slice")
			return true
		}
		var x ast.Expr
		var err error
		if fw.Guard(r, "parser.ParseExpr", func() { x, err = parser.ParseExpr(text) }) {
			return false
		}
		nre++
		r.Cover("reparse-checked")
		if err != nil && !strings.Contains(text, "//") && !strings.Contains(text, "#") {
			// XGo's scanner inserts a semicolon after "..." / "!" before a newline only outside parentheses:
			// retry inside parentheses (the node may have been parsed at a deeper nesting level)
			var x2 ast.Expr
			var err2 error
			if !fw.Guard(r, "parser.ParseExpr", func() { x2, err2 = parser.ParseExpr("(" + text + ")") }) && err2 == nil {
				if pe, ok := x2.(*ast.ParenExpr); ok {
					x, err = pe.X, nil
				}
			}
		}
		if err != nil && strings.Contains(text, "\n") && (strings.Contains(text, "//") || strings.Contains(text, "#") || strings.Contains(text, "/*")) {
			// a slice holding a comment and a line break: where semicolons are inserted after the comment depends on
			// the nesting the node was parsed at, so the slice is not context-free; the re-parse rule does not apply
			r.Cover("reparse-skipped:line-comment-inside-slice")
			return true
		}
		if err != nil {
			if c17Exempt["R5:"+k] {
				return true
			}
			r.Fail("span:R5:"+k+":slice-does-not-parse", "the source slice of a %s, %q, does not parse as an expression: %v (context %q)", k, clipS(text, 120), err, ctx(it.Src, hi))
			return false
		}
		if d := oracle.ShapeDiff(n, x, oracle.ShapeOpts{}); d != "" {
			if c17Exempt["R5:"+k] {
				return true
			}
			r.Fail("span:R5:"+k+":reparse-differs", "re-parsing the source slice %q of a %s gives a different expression: %s", clipS(text, 120), k, d)
			return false
		}
		return true
	})
	if sc.nodes >= 20 && !r.Failed() {
		r.NonTrivial()
		if len(it.Src) < 160 && c.Kind != "corpus" {
			r.Sample(map[string]any{"src": string(it.Src), "nodes": sc.nodes})
		}
	}
}

func clipS(s string, n int) string {
	if len(s) > n {
		return s[:n] + "…"
	}
	return s
}

// calibrate runs the same R1-R4 checker on go/parser trees and reports which rules go/ast itself breaks.
func (p *c17) calibrate(c fw.Case, r *fw.Rec) {
	fset := gotoken.NewFileSet()
	f, err := goparser.ParseFile(fset, "a.go", c.In, goparser.ParseComments|goparser.SkipObjectResolution)
	if err != nil {
		r.Skip("go-invalid")
		return
	}
	base := fset.File(f.Pos()).Base()
	sc := newSpanChecker(c.In, base)
	sc.fail = func(key, msg string) { r.Cover("CALIB " + key) }
	for _, d := range f.Decls {
		sc.check(d, nil)
	}
	r.NonTrivial()
}

func (p *c17) Finish(cover map[string]int, extra map[string]any) {
	var ex []string
	for k := range c17Exempt {
		ex = append(ex, k)
	}
	sort.Strings(ex)
	extra["exempt_inherited_from_go_ast"] = ex
}

type posField struct {
	name string
	pos  token.Pos
}

var posType = reflect.TypeOf(token.NoPos)

// posFields returns the valid token.Pos fields of a node (exported fields of the node struct itself).
func posFields(n oracle.Node) []posField {
	v := reflect.ValueOf(n)
	if v.Kind() != reflect.Ptr || v.IsNil() || v.Elem().Kind() != reflect.Struct {
		return nil
	}
	v = v.Elem()
	var out []posField
	for i := 0; i < v.NumField(); i++ {
		f := v.Type().Field(i)
		if f.Type != posType || !f.IsExported() {
			continue
		}
		if p := token.Pos(v.Field(i).Int()); p.IsValid() {
			out = append(out, posField{f.Name, p})
		}
	}
	return out
}

// c17EndMarker names the position fields that record where a node ends (they may equal End()); all others record
// the start of one of the node's own tokens.
var c17EndMarker = map[string]bool{"Last": true, "NoParenEnd": true}
