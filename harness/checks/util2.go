package checks

import (
	gotoken "go/token"

	"verif/oracle"
)

type gotokenPos = gotoken.Pos

func oracleHasBad(n oracle.Node) string { return oracle.HasBad(n) }
