package checks

import (
	"bytes"
	"fmt"
	"go/types"
	"io"
	"log"
	"os"
	"runtime"
	"sort"
	"strings"
	"sync"

	"github.com/goplus/gogen"
	"github.com/goplus/mod/env"
	"github.com/goplus/mod/modfile"
	"github.com/goplus/xgo/ast"
	"github.com/goplus/xgo/cl"
	"github.com/goplus/xgo/parser"
	"github.com/goplus/xgo/scanner"
	"github.com/goplus/xgo/token"
	"github.com/goplus/xgo/tool"
	"github.com/goplus/xgo/x/typesutil"

	"verif/fw"
)

// In-process XGo compilation (parser.ParseFSDir on an in-memory file system -> cl.NewPackage -> WriteTo).

var (
	xgocOnce sync.Once
	xgocFset *token.FileSet
	xgocImp  types.Importer
)

// memoImporter remembers failed imports (each failing `go list` costs about a second).
type memoImporter struct {
	inner *tool.Importer
	mu    sync.Mutex
	errs  map[string]error
}

func (m *memoImporter) Import(path string) (*types.Package, error) {
	m.mu.Lock()
	if e, ok := m.errs[path]; ok {
		m.mu.Unlock()
		return nil, e
	}
	m.mu.Unlock()
	pkg, err := m.inner.Import(path)
	if err != nil {
		m.mu.Lock()
		m.errs[path] = err
		m.mu.Unlock()
	}
	return pkg, err
}

// importCacheFile is written by the driver (xgocWarm) and loaded by every worker: it maps package paths to the
// export files `go list -export` produced, so that workers do not each spend a minute on `go list`.
var importCacheFile string

func xgocInit(repo string) {
	xgocOnce.Do(func() {
		log.SetOutput(io.Discard) // cl and the importer log through the standard logger
		xgocFset = token.NewFileSet()
		imp := tool.NewImporter(nil, &env.XGo{Version: "1.0", Root: repo}, xgocFset)
		if importCacheFile != "" {
			imp.Cache().Load(importCacheFile)
		}
		xgocImp = &memoImporter{inner: imp, errs: map[string]error{}}
	})
}

var xgocCommonPkgs = []string{"fmt", "os", "strings", "strconv", "sort", "errors", "math", "time", "testing", "bytes", "io", "reflect", "sync", "context", "bufio", "unicode", "unicode/utf8", "math/big", "math/rand", "regexp", "path", "path/filepath", "net/http", "encoding/json", "log", "flag", "runtime", "unsafe",
	"github.com/qiniu/x/stringutil", "github.com/qiniu/x/errors", "github.com/qiniu/x/xgo/ng", "github.com/qiniu/x/stringslice", "github.com/qiniu/x/osx", "github.com/qiniu/x/xgo", "github.com/qiniu/x/test",
	"github.com/goplus/xgo/builtin", "github.com/goplus/xgo/builtin/iox", "github.com/goplus/xgo/cl/internal/spx", "github.com/goplus/xgo/cl/internal/spx2", "github.com/goplus/xgo/test", "github.com/goplus/xgo/tpl", "github.com/goplus/xgo/tpl/variant", "github.com/goplus/xgo/tpl/variant/builtin"}

// xgocWarm runs in the driver: one `go list -export` for the commonly imported packages, saved for the workers.
func xgocWarm(e *fw.Env) {
	file := e.Scratch + "/importcache"
	importCacheFile = file
	if e.Worker {
		return
	}
	log.SetOutput(io.Discard)
	fset := token.NewFileSet()
	imp := tool.NewImporter(nil, &env.XGo{Version: "1.0", Root: e.Repo}, fset)
	// packages that do not exist here make the whole `go list` fail: add them one group at a time
	if err := imp.Cache().Prepare(e.Repo, xgocCommonPkgs...); err != nil {
		for _, p := range xgocCommonPkgs {
			imp.Cache().Prepare(e.Repo, p)
		}
	}
	imp.Cache().Save(file)
}

// xgocLookupClass mirrors the class table the repository's own cl tests use.
func xgocLookupClass(ext string) (c *modfile.Project, ok bool) {
	switch ext {
	case ".tgmx", ".tspx":
		return &modfile.Project{
			Ext: ".tgmx", Class: "*MyGame",
			Works:    []*modfile.Class{{Ext: ".tspx", Class: "Sprite"}},
			PkgPaths: []string{"github.com/goplus/xgo/cl/internal/spx", "math"}}, true
	case ".t2gmx", ".t2spx":
		return &modfile.Project{
			Ext: ".t2gmx", Class: "Game",
			Works:    []*modfile.Class{{Ext: ".t2spx", Class: "Sprite"}},
			PkgPaths: []string{"github.com/goplus/xgo/cl/internal/spx2"}}, true
	case "_xtest.gox":
		return &modfile.Project{
			Ext: "_xtest.gox", Class: "App",
			Works:    []*modfile.Class{{Ext: "_xtest.gox", Class: "Case"}},
			PkgPaths: []string{"github.com/goplus/xgo/test", "testing"}}, true
	}
	return
}

type srcFS struct {
	dir   string
	names []string
	files map[string]string
}

type compileOpts struct {
	FileLine     bool   // emit //line directives
	RelativeBase string // cl.Config.RelativeBase
	PkgName      string // package to compile ("" = main)
	Budget       int64  // cl step budget (0 = none)
	GenMain      bool   // auto-generate main if no entry
	Order        []int  // presentation order of the files (indices into names); nil = sorted
	Recorder     bool   // compile with an x/typesutil recorder attached (Config.Recorder != nil)
}

type compileResult struct {
	Out      []byte
	Err      error
	ErrList  []string
	Panic    any
	Stack    string
	Parsed   bool // the parser produced a package (possibly with errors)
	ParseErr error
	Steps    int64
	Pkg      *gogen.Package
	AstPkg   *ast.Package
	Fset     *token.FileSet
}

// compileXGo compiles the package made of files (name -> source) living in directory /p.
func compileXGo(repo string, files map[string]string, o compileOpts) (res compileResult) {
	xgocInit(repo)
	names := make([]string, 0, len(files))
	for n := range files {
		names = append(names, n)
	}
	sort.Strings(names)
	if o.Order != nil && len(o.Order) == len(names) {
		nn := make([]string, len(names))
		for i, k := range o.Order {
			nn[i] = names[k]
		}
		names = nn
	}
	fset := xgocFset
	res.Fset = fset
	fs := &c34fs{files: map[string]string{}}
	for _, n := range names {
		fs.ents = append(fs.ents, c34entry{name: n})
		fs.files["/p/"+n] = files[n]
	}
	defer func() {
		if e := recover(); e != nil {
			res.Panic = e
			buf := make([]byte, 32<<10)
			buf = buf[:runtime.Stack(buf, false)]
			st := string(buf)
			if i := strings.LastIndex(st, "\npanic("); i >= 0 {
				st = st[i+1:]
			}
			res.Stack = st
		}
		if o.Budget > 0 {
			res.Steps = cl.VerifSteps()
			cl.VerifReset(0)
		}
	}()
	pkgs, perr := parser.ParseFSDir(fset, fs, "/p", parser.Config{Mode: parser.ParseComments, ClassKind: func(fname string) (isProj, ok bool) {
		for _, ext := range []string{".tgmx", ".t2gmx"} {
			if strings.HasSuffix(fname, ext) {
				return true, true
			}
		}
		for _, ext := range []string{".tspx", ".t2spx", "_xtest.gox"} {
			if strings.HasSuffix(fname, ext) {
				return strings.HasPrefix(fname, "main"), true
			}
		}
		return false, false
	}})
	res.ParseErr = perr
	name := o.PkgName
	if name == "" {
		name = "main"
	}
	pkg := pkgs[name]
	if pkg == nil {
		for _, p := range pkgs {
			pkg = p
			break
		}
	}
	if pkg == nil {
		return
	}
	res.Parsed = true
	res.AstPkg = pkg
	conf := &cl.Config{
		Fset:          fset,
		Importer:      xgocImp,
		LookupClass:   xgocLookupClass,
		NoFileLine:    !o.FileLine,
		NoAutoGenMain: !o.GenMain,
		RelativeBase:  o.RelativeBase,
	}
	if o.Recorder {
		conf.Recorder = typesutil.NewRecorder(&typesutil.Info{
			Types: map[ast.Expr]types.TypeAndValue{}, Defs: map[*ast.Ident]types.Object{}, Uses: map[*ast.Ident]types.Object{},
			Implicits: map[ast.Node]types.Object{}, Selections: map[*ast.SelectorExpr]*types.Selection{}, Scopes: map[ast.Node]*types.Scope{},
			Overloads: map[*ast.Ident]types.Object{}, Instances: map[*ast.Ident]types.Instance{}})
	}
	if o.Budget > 0 {
		cl.VerifReset(o.Budget)
	}
	p, err := cl.NewPackage("", pkg, conf)
	res.Err = err
	res.Pkg = p
	if err != nil {
		res.ErrList = errStrings(err)
		return
	}
	var b bytes.Buffer
	if werr := p.WriteTo(&b); werr != nil {
		res.Err = werr
		res.ErrList = errStrings(werr)
		return
	}
	res.Out = b.Bytes()
	return
}

func errStrings(err error) []string {
	switch e := err.(type) {
	case scanner.ErrorList:
		out := make([]string, len(e))
		for i, x := range e {
			out[i] = x.Error()
		}
		return out
	case interface{ Unwrap() []error }:
		var out []string
		for _, x := range e.Unwrap() {
			out = append(out, x.Error())
		}
		return out
	}
	// one entry: a message may quote several lines of source text, which must not be read as further entries
	return []string{strings.TrimSpace(err.Error())}
}

var _ = fmt.Sprint
var _ = os.Getenv
var _ fw.Case
