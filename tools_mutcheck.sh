#!/bin/sh
# usage: tools_mutcheck.sh <patch.diff> <ID> [tier]   — applies a seeded change to /repo, runs the check, undoes it
P="$1"; ID="$2"; TIER="${3:-quick}"
cd /repo || exit 9
if ! git diff --quiet; then echo "/repo has uncommitted changes; refusing"; exit 9; fi
git apply "$P" || { echo "patch does not apply"; exit 9; }
cd /verif && ./check "$ID" "$TIER" > /tmp/mutcheck.$$.out 2>&1; RC=$?
git -C /repo checkout -- .
grep -E "^(VIOLATION|KNOWN-FINDING|INCONCLUSIVE|property=|BUILD)" /tmp/mutcheck.$$.out | cut -c1-300
grep -A3 "^VIOLATION" /tmp/mutcheck.$$.out | grep "^  " | head -8 | cut -c1-400
rm -f /tmp/mutcheck.$$.out
echo "exit=$RC"
