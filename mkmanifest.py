#!/usr/bin/env python3
"""Regenerates /verif/MANIFEST.json from the table below (kept valid at all times)."""
import json, os, subprocess

HERE = os.path.dirname(os.path.abspath(__file__))
props = [json.loads(l) for l in open(os.path.join(HERE, "properties.jsonl"))]

# id -> (level, technique, level text, level note, design ref)
CHECKS = {}
def reg(id, level, technique, text, note):
    CHECKS[id] = (level, technique, text, note)

exec(open(os.path.join(HERE, "manifest_table.py")).read())

hook_commits = []
try:
    out = subprocess.run(["git", "-C", "/repo", "log", "--format=%h %s"], capture_output=True, text=True).stdout
    for ln in out.splitlines():
        h, _, s = ln.partition(" ")
        if s.startswith("verif-hook:"):
            hook_commits.append(h)
except Exception:
    pass

checks, na = [], []
for p in props:
    id = p["id"]
    if id in CHECKS:
        level, technique, text, note = CHECKS[id]
        checks.append({
            "property_id": id,
            "quick_cmd": f"./check {id} quick",
            "thorough_cmd": f"./check {id} thorough",
            "evidence_file": f"/verif/evidence/{id}.json",
            "replay_cmd_template": f"./check {id} --replay {{path}}",
            "engine": "vcheck",
            "level_claimed": {"category": level, "text": text, "design_ref": f"DESIGN.md §3 {id}"},
            "level_note": note,
            "technique": technique,
        })
    else:
        na.append({"property_id": id, "reason": NA.get(id, "monitor not built yet in this round (designed in DESIGN.md §3); not claimed until its check exists")})

m = {
    "version": 1,
    "setup_cmd": "./setup.sh",
    "hooks": {
        "guard": "verif",
        "enable": "go build -tags verif (the harness module /verif/harness replaces github.com/goplus/xgo with /repo, so every check compiles /repo's working tree with the tag on)",
        "baseline_off_cmd": "cd /repo && go test -mod=mod -json -vet=off -count=1 -timeout 25m ./...",
        "source_commits": hook_commits,
        "add_only": True,
    },
    "engines": [
        {"name": "vcheck", "path": "/verif/harness", "serves_properties": sorted(CHECKS), "kind_free_text": "Go driver/worker runtime-monitoring harness: seed-indexed workloads run the real /repo code in crash-isolated worker processes; deterministic oracles (reference implementations, round-trips, structural invariants, recorded histories) judge every execution"},
    ],
    "checks": checks,
    "not_applicable": na,
    "notes": "All checks are runtime monitors (family: runtime monitoring and sanitizers). Exit 0 = held on everything explored and coverage floors met; exit 1 + VIOLATION line; exit 2 + INCONCLUSIVE line (watchdog / floor not met). KNOWN_FINDINGS.txt lists recorded defects by site signature and repaired defects.",
}
json.dump(m, open(os.path.join(HERE, "MANIFEST.json"), "w"), indent=1)
print("claimed", len(checks), "not_applicable", len(na))
