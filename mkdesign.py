#!/usr/bin/env python3
"""Assembles /verif/DESIGN.md from DESIGN.head.md, manifest_table.py, design_notes.py, KNOWN_FINDINGS.txt,
seeded/*/meta.json, the evidence files and /repo's history."""
import json, os, glob, subprocess, re

HERE = os.path.dirname(os.path.abspath(__file__))
props = [json.loads(l) for l in open(os.path.join(HERE, "properties.jsonl"))]
CHECKS = {}
NA = {}
def reg(id, level, technique, text, note):
    CHECKS[id] = (level, technique, text, note)
exec(open(os.path.join(HERE, "manifest_table.py")).read())
exec(open(os.path.join(HERE, "design_notes.py")).read())

known, fixed = {}, {}
for ln in open(os.path.join(HERE, "KNOWN_FINDINGS.txt")):
    ln = ln.rstrip("\n")
    m = re.match(r"known: property=(\S+) site=(.*?) :: (.*)", ln)
    if m:
        known.setdefault(m.group(1), []).append((m.group(2), m.group(3)))
        continue
    m = re.match(r"fixed: property=(\S+) (\S+) (.*)", ln)
    if m:
        fixed.setdefault(m.group(1), []).append((m.group(2), m.group(3)))

seeded = {}
for f in sorted(glob.glob(os.path.join(HERE, "seeded", "*", "meta.json"))):
    try:
        d = json.load(open(f))
    except Exception:
        continue
    seeded.setdefault(d.get("property", os.path.basename(os.path.dirname(f))), []).append((os.path.basename(os.path.dirname(f)), d))

def clip(s, n):
    s = s.replace("\n", " ")
    return s if len(s) <= n else s[: n - 1] + "…"

out = [open(os.path.join(HERE, "DESIGN.head.md")).read().rstrip("\n"), ""]
for p in props:
    id = p["id"]
    out.append(f"### {id} — {p['title']}")
    if id in CHECKS:
        level, technique, text, note = CHECKS[id]
        out.append(f"*Technique.* {technique}.")
        out.append("")
        out.append(f"*What is decided.* {text} *Limits.* {note}")
    if id in NOTES:
        out.append("")
        out.append(NOTES[id])
    if id in fixed:
        out.append("")
        out.append("*Defects repaired (`fix:` commits in /repo):* " + "; ".join(f"`{c}` {clip(w, 160)}" for c, w in fixed[id]))
    if id in known:
        out.append("")
        out.append("*Known findings (printed as KNOWN-FINDING, exit 0):*")
        bydesc = {}
        for site, desc in known[id]:
            bydesc.setdefault(desc, []).append(site)
        for desc, sites in bydesc.items():
            out.append("  - " + ", ".join(f"`{clip(s, 110)}`" for s in sites) + f" — {clip(desc, 420)}")
    if id in seeded:
        out.append("")
        for name, d in seeded[id]:
            out.append(f"*Seeded change `seeded/{name}`:* needs {clip(d.get('needs', ''), 260)} → {clip(d.get('caught_by', ''), 260)}")
    out.append("")

out.append("## 4. Genuine defects and false alarms")
out.append("")
out.append("Every violation a check reported on the unchanged tree was first reproduced against the real code (the replay file, "
           "and usually a hand-written minimal input through `.bin/xgoc` or a scratch Go test) and then classified.")
out.append("")
out.append("### 4.1 Repaired (`fix:` commits, one defect each; the unedited suite passes with each)")
log = subprocess.run(["git", "-C", "/repo", "log", "--reverse", "--format=%h %s"], capture_output=True, text=True).stdout
n = 0
for ln in log.splitlines():
    h, _, s = ln.partition(" ")
    if s.startswith("fix:"):
        out.append(f"- `{h}` {s[4:].strip()}")
        n += 1
out.append("")
out.append(f"({n} commits. `KNOWN_FINDINGS.txt` maps them to properties with the failing input.)")
out.append("")
out.append("### 4.2 Recorded, not repaired")
out.append("Listed per property above. The recurring reasons: the defect is in the pinned **gogen** dependency "
           "(module cache, outside /repo: constant values kept through conversions, parentheses around composite literals "
           "in statement headers, label errors in map order, builtins declared as ordinary functions, one position for all "
           "names of a `:=`, constant `unsafe.Sizeof` of an invalid recursive type evaluated without a validity check); the repository's own golden tests pin the defective output (C04 negative steps, C37 "
           "`func() (int)`, C06 `var d = -a`); the behaviour is a design decision of the tool chain that contradicts the "
           "property as stated (C06: semantic checks left to `go build`; C14: command-style call syntax, `$` in strings); "
           "or the repair is not a small patch (C03 forwarded multi-value `?`, C09 block-comment doc, C12 synthetic AST).")
out.append("")
out.append("### 4.3 False alarms met while building, and what was corrected in the machinery")
out.append(FALSE_ALARMS.strip("\n"))
out.append("")
out.append("## 5. Seeded breaking changes")
out.append("")
out.append("Each change was produced by an independent sub-agent that saw only the property text and a scratch git worktree, "
           "was confirmed in a fresh worktree (applies, builds, the listed existing tests pass, the demonstration fails with and "
           "passes without it: `tools_confirm_mut.sh`), then applied to /repo's working tree, checked with `./check <ID> quick` "
           "and undone (`tools_mutcheck.sh`). Nothing of this is committed to /repo.")
out.append("")
out.append("| property | change needs | result |")
out.append("|---|---|---|")
for id in sorted(seeded):
    for name, d in seeded[id]:
        out.append(f"| {name} | {clip(d.get('needs', ''), 200)} | {clip(d.get('caught_by', ''), 200)} |")
out.append("")
out.append("## 6. Cost (16 cores, last recorded runs)")
out.append("")
out.append("| property | tier | evaluations | distinct non-trivial | wall s |")
out.append("|---|---|---|---|---|")
for p in props:
    f = os.path.join(HERE, "evidence", p["id"] + ".json")
    if os.path.exists(f):
        try:
            e = json.load(open(f))
            out.append(f"| {p['id']} | {e.get('tier')} | {e['coverage'].get('evaluations')} | {e['coverage'].get('distinct_nontrivial')} | {e.get('wall_s', 0):.0f} |")
        except Exception:
            pass
out.append("")
out.append("The repository's own suite with hooks off: `cd /repo && go test -mod=mod -json -vet=off -count=1 -timeout 25m ./...` "
           "(`./x/typesutil` alone takes 7–9 minutes on this machine, `./cl` ≈ 27 s). Run it without `GOFLAGS=-mod=mod` in the "
           "environment (`env -u GOFLAGS`): with it `cl.TestErrImportPkg` sees a different error text.")
open(os.path.join(HERE, "DESIGN.md"), "w").write("\n".join(out) + "\n")
print("DESIGN.md written:", len(out), "lines")
