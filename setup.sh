#!/bin/sh
# Pre-warms the Go build cache; every check rebuilds from /repo's working tree anyway.
export GOFLAGS=-mod=mod GOPROXY=off GOSUMDB=off GOTOOLCHAIN=local
cd "$(dirname "$0")/harness" || exit 1
mkdir -p ../.bin
go build -tags verif -o ../.bin/vcheck ./cmd/vcheck || exit 1
if [ -d ./cmd/vrace ]; then go build -race -tags verif -o ../.bin/vcheck-race ./cmd/vrace || exit 1; fi
exit 0
