#!/bin/sh
# usage: tools_confirm_prog.sh <ID> <outdir> "<test pkgs>" [demo file or dir relative to outdir]
# Confirms a seeded change whose demonstration is an XGo program: in a fresh scratch worktree the patch applies and
# builds, the listed existing test packages pass with it, and `xgo run <demo>` behaves differently with and without it.
ID="$1"; OUT="$2"; TESTS="$3"; DEMO="${4:-demo.xgo}"
export GOFLAGS=-mod=mod GOPROXY=off GOSUMDB=off GOTOOLCHAIN=local
WT=/tmp/confirm-$ID-$$
git -C /repo worktree add -q --detach "$WT" HEAD || exit 9
cd "$WT" || exit 9
RES=ok
go build -o "$WT/xgo.orig" ./cmd/xgo || RES="orig-build-fails"
git apply "$OUT/patch.diff" || RES="patch-does-not-apply"
if [ "$RES" = ok ]; then go build ./cl/... ./parser/... ./tpl/... ./x/... ./scanner/... ./printer/... ./format/... ./ast/... ./tool/... ./cmd/... >/dev/null 2>&1 && go build -o "$WT/xgo.mut" ./cmd/xgo || RES="build-fails"; fi
if [ "$RES" = ok ] && [ -n "$TESTS" ]; then
  env -u GOFLAGS go test -mod=mod -vet=off -count=1 $TESTS > test.log 2>&1 || RES="existing-tests-fail"
  grep -E "^(FAIL|---)" test.log | head -5
fi
if [ "$RES" = ok ]; then
  D=/tmp/confirm-demo-$ID-$$; rm -rf $D; mkdir -p $D
  cp -r "$OUT/$DEMO" $D/ 2>/dev/null
  printf 'module demo\n\ngo 1.23\n\nrequire github.com/goplus/xgo v0.0.0\n\nreplace github.com/goplus/xgo => %s\n' "$WT" > $D/go.mod
  cp "$WT/go.sum" $D/
  T=$D/$(basename "$DEMO"); [ -d "$T" ] && T=.
  if [ -d "$OUT/$DEMO" ]; then cd "$D/$(basename $DEMO)" && cp ../go.mod ../go.sum . ; T=.; else cd $D; T=$(basename "$DEMO"); fi
  XGOROOT=$WT timeout 120 "$WT/xgo.orig" run $T > $D/orig.out 2>&1; echo "exit=$?" >> $D/orig.out
  XGOROOT=$WT timeout 120 "$WT/xgo.mut" run $T > $D/mut.out 2>&1; echo "exit=$?" >> $D/mut.out
  if cmp -s $D/orig.out $D/mut.out; then RES="demo-behaves-the-same"; else echo "--- original"; head -12 $D/orig.out | cut -c1-200; echo "--- with change"; head -12 $D/mut.out | cut -c1-200; fi
  rm -rf $D
fi
cd /; git -C /repo worktree remove --force "$WT"
echo "CONFIRM $ID: $RES"
