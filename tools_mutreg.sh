#!/bin/sh
# usage: tools_mutreg.sh [names…]   — applies every seeded change in turn (tools_mutcheck.sh) and reports whether the
# property's quick check alarms (exit=1). /repo must be clean and no other check may run meanwhile.
cd /verif
names="$@"; [ -z "$names" ] && names=$(ls seeded)
for n in $names; do
  prop=$(python3 -c "import json;print(json.load(open('/verif/seeded/$n/meta.json'))['property'])" 2>/dev/null)
  [ -z "$prop" ] && prop=$(echo $n | cut -c1-3)
  out=$(./tools_mutcheck.sh /verif/seeded/$n/patch.diff $prop quick 2>&1)
  code=$(echo "$out" | grep -o 'exit=[0-9]*' | tail -1)
  sites=$(echo "$out" | grep -c '^VIOLATION')
  echo "$n -> $prop $code violations=$sites $(echo "$out" | grep 'site=' | head -1 | cut -c1-110)"
done
