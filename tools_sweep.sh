#!/bin/sh
# usage: tools_sweep.sh <tier> "<seeds>" <ID>...   -- runs ./check for every ID and seed, prints one line per run
tier=$1; seeds=$2; shift 2
for id in "$@"; do
  for s in $seeds; do
    out=$(VERIF_SEED=$s ./check $id $tier 2>&1); code=$?
    echo "$id seed=$s exit=$code $(echo "$out" | grep '^property=' | tail -1 | sed 's/^property=[A-Z0-9]* //') $(echo "$out" | grep -c '^VIOLATION') viol $(echo "$out" | grep '^INCONCLUSIVE' | head -2 | tr '\n' ' ')"
  done
done
