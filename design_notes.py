# Hand-written per-property notes for DESIGN.md (mkdesign.py). Keys: property id -> markdown paragraph(s).
NOTES = {
"C38": """The constructors cannot build an error response with `data`, so after a wave-8 seeded change was missed a relay
phase reads hand-framed messages (calls, notifications, results, errors with and without data) and writes them
again: the written body must be the same JSON value.""",
"C01": """Q 60 programs / T 3 000. Every fifth case is a *constant-conversion probe*: one constant expression whose value
passes through a type conversion (`string(rune(N))`, `int(7.0)/2`, `float64(N)/2`, shifts, …) in one of four contexts.
They are kept out of the main generator because gogen (pinned dependency, outside /repo) keeps the unconverted
constant value through a conversion — three probe sites are known findings — and would otherwise mask everything
else through constant folding (`"" < string(rune(104))` is folded to `false`). Composite literals of named types in
statement headers are rare in the generator for the same reason (gogen drops the parentheses: three known sites).
Round-0 deviation: the plan built one binary per program; the dispatcher binary replaced it (cost).
Every program also contains `tLate`, a function that uses package-level names declared after `main` next to locals of
the same names: this exposed a scoping defect (a function loaded on demand saw the referring function's locals — fixed,
854b26b); the same leak for package-level *variable initialisers* cannot be repaired in cl alone and is a probe with a
known finding (`late-package-var-initializer`). After the seeded change switch clauses are sometimes empty or
fallthrough-only.""",
"C02": """Q 40 programs × 14 statements / T 1 500. The generator writes the XGo statement and its Go expansion side by side;
traces (`tr`, `src`, `pr`) make evaluation order and count observable. One defect found and fixed: in `a, b = [1, 2], [3]` every literal took
the type of the last target (reported by a wave-7 agent as a side remark; the literal constructs now include
assignments to typed variables, single and multiple).""",
"C03": """Q 48 programs × 8 scenarios / T 1 600. Three defects found: `f()?` as a statement left a bare `_autoGo_1`
statement (fixed), `a, b := two()?` was rejected (fixed), `g(two()?)` with a multi-value call is rejected (known
finding, probe `question-operator-call-forwarded-as-arguments`: repairing it means reworking the argument/overload
matching loop; `for v <- many()?` puts the expansion inside the loop body, probe
`question-operator-in-range-source`). Operands also span several lines (`multi-line-call`: the frame must name the
line the operand starts on). `?` in an if header is not generated: the in-place expansion cannot live there and the position is
not in the property's list (statement, assignment, argument).""",
"C04": """Q 40 programs × 5 ranges × 9 contexts / T 1 500. Finding: every for-loop context enumerates nothing (or runs away)
for a negative step while comprehensions use the runtime range object and descend correctly — six known sites, one
per loop context. Not repaired: the repository's golden tests pin `i < _gop_end; i += _gop_step` for computed steps,
so no correct lowering passes the unedited suite. Loops carry an iteration guard (marker 99999) so a runaway loop is
reported, not suffered; the filter of the filtered loop lets the body run after 60 calls for the same reason. Three
further loops per program have bounds written `len(x)` while the body grows `x` (the operands are evaluated once, like
the runtime range object) — added after a second-wave seeded change was missed; eight more have variable, field,
element and dereference operands that the body assigns to (added after a wave-7 change was missed). The variable case
failed on the unchanged tree (`n := 4; for i <- :n { n-- }` ran twice) and was repaired.""",
"C05": """Q 40 programs × 12 literals / T 1 500. bool and sized-integer operands are rejected at compile time
(`b.string undefined`: the documented meaning of `"${x}"` is `x.string`, which exists for int, int64, uint64,
float64, string, error and Stringers) and are outside the domain although the property's quantifier names bools —
a compile-time rejection yields no wrong value; recorded here as an observation. Named string types are rejected too
(`cannot use ms (type MyS) as type string`); not generated. Float constants with many digits (untyped and typed) were added to the
embedded expressions after a wave-9 seeded change (constant parts formatted with %.6g) was missed.""",
"C06": """Q ≈3 200 packages / T ≈62 000. cl implements only part of Go's semantic checks and leaves the rest to `go
build` (unused variables and labels, missing return, types used as values, …). As stated, the property is violated
by that design; to keep the monitor useful the rejection of an accepted package is classified by what is known
about the **input**: unmutated generated programs and Go-compatible near-misses that go/types still accepts are
reported as `lowering:*` (specific sites — this is where a wrong lowering shows up); Go-compatible near-misses that
go/types rejects too, and near-misses of XGo-only programs, are two family sites listed as known findings; the fixed
list of repository snippets that compile but are not valid Go is listed by Go message class (`corpus:*`). The Go
message classes observed are counted in the evidence (`go-rejection-class:*`).
After a wave-10 change was missed (`seeded/C06d`: duplicate type-switch cases looked up by pointer identity instead of
types.Identical), a quarter of the Go-compatible programs carry a type switch over unnamed composite types, half of them
listing one composite type in two clauses; the compiler has to reject those, and an accepted one is a specific site
(`lowering:typecheck:duplicate case…`) because the generated (un-mutated) kind does not fall into the broad known
near-miss site. Remaining limit: a *near-miss* that Go also rejects for a new reason still folds into that one known site;
splitting it by Go's rejection class needs a multi-seed enumeration first and was not done.""",
"C07": """Q ≈3 500 packages / T ≈122 000 through cl.NewPackage+WriteTo and x/build; one defect fixed (bodiless function
declaration made WriteTo panic). A third of the cases compile with an x/typesutil recorder attached (Config.Recorder
changes which code runs, e.g. goxRecorder.Complete in a defer) and a case kind draws unusual declaration shapes
(overload declarations with every receiver spelling and candidate-list form) — both added after a seeded change was
missed. A further kind, decl-cycles, draws package-level declarations of every kind that refer to themselves or to each
other from inside their own headers (a self-referential signature made a seeded change overflow the stack; token
mutation had never produced one). At thorough size this kind found one genuine crash, recorded as known: a type that
contains itself through an array under `unsafe.Sizeof` overflows the stack inside go/types' Sizes (gogen evaluates the
constant; nobody rejects the invalid recursive type). Stack-overflow sites are named after the recursing functions
(`crash:fatal error: stack overflow:in:<functions>`), so another runaway recursion is a different site.""",
"C08": """Q 700 packages × (5 in-process + 1 other-process compilations) / T 20 000. One known finding: gogen reports
"label X defined and not used" in map-iteration order. An ad-hoc mutant (files sorted by name length instead of
name) is caught in all package kinds.
After a wave-10 change was missed (`seeded/C08d`: project class files loaded in map order), half of the class-project
packages carry a second project file of another class framework (`Game.tgmx` + `App.t2gmx`), the only shape in which
more than one project file exists.""",
"C09": """Q 40 programs / T 1 500 (≈25 statements each). Two defects fixed (a function loaded on demand clobbered the pending
//line comment of the calling statement; lambda bodies inherited the enclosing statement's line), one known (a var
declaration under a multi-line block comment, probe). Round-0 deviation: run-time function entry lines
(`FuncForPC(pc).Entry()`) turned out to depend on which instruction the Go compiler makes the prologue of a function
without results; function declarations are judged on the written Go source through the //line-adjusted position of
the `func` keyword instead (what the Go toolchain records for the declaration). Statement kind `for-in-filter` was added
after a second-wave seeded change was missed.""",
"C10": """Q 40 programs × 6 overload sets / T 1 500. No defect found on the unchanged tree. Style `mixed-literals-and-named`
(inline literals and named functions in one declaration) was added after a third-wave seeded change was missed. One set in six has 11–13 candidates
(the generated `name__N` functions use one character per index) — added after a wave-9 change was missed.""",
"C11": """Q 40 packages (1–3 class files) / T 1 500. No defect found on the unchanged tree. Half of the packages declare
package-level functions named like class methods that call each other bare (added after a second-wave seeded change
was missed). Class files sometimes declare a constant or a type before the var block (added after a wave-9 change was
missed: the var block was no longer recognised and the fields became package-level variables).""",
"C12": """Q 700 files / T 20 000. One defect fixed (nil key in Info.Types for composite literals without type expression).
Seventeen deviation classes are known findings, named by root cause: multi-name `:=`/const/embedded-field positions
(gogen takes one position per declaration), synthetic AST built by cl for range-expression loops, for-in filters,
auto-called identifiers under `!`, overload literals, operator calls and the shadow `main`, labels and blank
definitions not recorded, builtins recorded as ordinary/template functions, type-switch variables recorded with the
underlying type. Nodes inside interpolated strings and domain-text literals come from sub-parsers and count as nodes
of the file. The comparison with go/types is made per identifier by byte offset. After seeded changes were missed the
Go-compatible programs also contain package-level declarations placed after their first use (this exposed two genuine
defects, both fixed: constants loaded on demand lost their Defs entry; a function loaded on demand saw the referring
function's locals) and partial redeclarations by `:=`. After a wave-10 change was missed (struct embedding `*T`: the
field object moved to the `*`), the programs also declare structs that embed a type by value, by pointer and as a
qualified pointer (`*strconv.NumError`), and a misplaced field object inside a struct type is its own site
(`defs-position-invariant:field:in-struct-type`), separate from the known class-file var-block finding that used to
absorb it.""",
"C13": "Q ≈10⁵ inputs / T ≈10⁶ in 11 mode combinations and 5 entry points; ten parser defects fixed (see appendix).",
"C14": """Four by-design/unsupported Go features are known findings by feature signature (type parameters, union/~
constraints, `$` in string literals, a blank between callee and `(`). XGo's command-style syntax makes a few blanks
significant by design; the re-spacing generator keeps those places untouched (blank before `(`/`[` after an operand,
blanks around operators that can be unary), and the two variants met before that change (`ch <-v`, `m [k] = v`) are
classified and listed as known findings of the same family.""",
"C15": """Exhaustive short strings over a hostile alphabet plus lexeme streams; six scanner defects fixed. Non-termination is
decided by a bound on the number of tokens per input byte, not by a timeout.""",
"C16": """False alarms removed during construction: go/scanner ≥ 1.20 places the automatic semicolon after a trailing
comment (XGo follows 1.18) → comments are compared separately and the auto-semicolon offset is normalised; `0i0`
(XGo unit suffix) → reference-side domain filter. Two known findings (`!` and `...` followed by newline insert an
automatic semicolon).""",
"C17": """Rules that go/ast itself breaks were calibrated on go/parser trees and frozen in `c17_exempt.go`
(`R4:FuncDecl:Ident,FuncType`, `R2:LabeledStmt`). Three AST span defects fixed. The re-parse rule R5 applies to
context-free slices only: a slice that holds a comment together with a line break is skipped (where semicolons are
inserted, and whether a bracket literal is read as rows, depends on the nesting the node was parsed at — false alarms
met in thorough runs). Rule R6 (added after a wave-8 seeded change was missed): every token position a
node records for itself (Lparen, Ellipsis, TokPos, Arrow …; found by reflection) lies inside the node's span; the two
fields that record an end (`LambdaExpr.Last`, `CallExpr.NoParenEnd`) may equal End(). Generated command calls now
sometimes spread their last argument.""",
"C18": "Synthesised trees populate every child field regardless of token; ast.Walk defect fixed (4a820ab).",
"C19": """Comment injection belongs to C21's quantifier only and was removed from C19/C20 (false alarm: a comment moved
across a token is 'comment placement'). Parentheses, empty statements and number spelling are normalised in the
comparison (gofmt conventions the property calls 'equal except positions').""",
"C20": """The one finding (a return list with lambda blocks indented differently by the second pass; first recorded as known,
then understood through a second instance that the new compact-layout shift of the case list turned up) is repaired
(`0d2b30f`, indentList). After a seeded change was missed the
workload also formats *unformatted* spellings: tightened variants (optional blanks next to punctuation removed) and
files of one-line functions whose printed width lies around the printer's 100-column limit; after a wave-7 change was
missed also compact layouts: compound statements, struct types, literals and declaration groups on one source line
or broken in unusual places, with trailing and leading comments and blank lines in between.""",
"C21": """Known findings: `format:comment-in:EnvExpr`, and — named by root cause, not by place — a comment that the printer
flushes directly behind a `/` operator without a blank (`new([]int)///c3`: the text gains a slash). Star-bordered block
comments were added to the injected shapes after a second-wave seeded change was missed.""",
"C22": """The generator is restricted to trees XGo can express without source-level parentheses chosen by the author
(lambdas only as call arguments, brace/bracket literals not as postfix operands or left of `*`, no bare `x!` directly
before `:`); three `brace-expression-in-statement-header-needs-parentheses` sites are known findings; failing trees are
reduced to the smallest sub-tree that fails in isolation (culprit-based site).""",
"C23": """The oracle was reduced to the property statement after false alarms (comment attachment and group boundaries are
not part of it): per declaration the (name, path) set may only lose exact duplicates, and every run of specs on
successive lines is sorted by unquoted path.""",
"C24": """Three RearrangeFuncs defects fixed; one known finding (input without trailing newline). After a third-wave seeded
change was missed, operator functions/methods and overload declarations (with and without receiver) were added to the
generator and to the reference model's notion of a declaration.""",
"C25": """Q 60 programs / T 2 400. Five converter defects fixed (the fifth: `func() { return }` as an argument made the printer
panic). Four of them: (`strings.Map` → keyword, locals named like an import,
program functions named like a builtin, lambda passed to `append`). Go programs with `$` in string literals are
outside the subset (documented deviation, C01). Two probe kinds stand alone (user function named like a builtin,
local variable named like an import).""",
"C26": """Q 12 scenarios / ≈70 crash points, T ≈130 / ≈700; permission modes include bits the umask (set to 022 by the check)
would clear (0664, 0666, 0775). The supervisor follows every thread of the xgo process
(PTRACE_O_TRACECLONE) but not its child processes (`go env`), which do not touch the files and would cost 10⁵ stops
per run. Defect fixed: remove-then-rename window, temporary file in os.TempDir() for bare names, mode always 0600.""",
"C28": "Left-recursion re-entry and no-progress hooks decide divergence logically; three tpl defects fixed.",
"C29": """After the seeded change was missed the domain was extended to nullable choice alternatives (skipping only the
README-silent commit case); repetition bodies stay non-nullable.""",
"C32": "Error offsets were compared at first (false alarm: not part of the property) and removed.",
"C37": """One known finding (`func() (int)`: the repository's golden tests pin the parenthesised unnamed result, a repair was
committed and reverted for that reason).""",
"C39": """Scenario design notes: only client→server calls use callback mode (mutual callbacks deadlock by construction);
an injected write failure also closes the pipe (a half-broken transport is not a state the real transports have).
The `-race` binary needs the goroutine-state deadlock monitor (§1.7). Fault kind `garbage` (a malformed header kills one
side's reader while both write directions keep working) was added after a second-wave seeded change was missed.""",
"C40": "porcupine timeout = inconclusive; a lost wake-up is decided by the deadlock monitor.",
"C41": """One reader per direction; closing the reading end may drop data its feeder already holds (inherent). Every run keeps
a Read pending on the closing side; pending calls must return and, when they fail, report io.EOF (added after a seeded
change was missed).""",
}

FALSE_ALARMS = """
* C16: go/scanner ≥ 1.20 auto-semicolon placement, `0i0` → normalisation / domain filter (machinery corrected).
* C32: error offsets compared although not in the property → comparison removed.
* C19/C20: injected comments judged as tree differences → injection moved to C21 only; gofmt conventions normalised.
* C23: comment attachment and group boundaries judged → oracle reduced to the statement.
* C22: trees that need author-chosen parentheses → generator restricted to 'natural positions'.
* C18: FuncType sort key and invalid-position children → oracle keeps field order for those; tpl/ast nodes excluded.
* C17: nodes inside interpolated strings / domain text → containment only.
* C24: a generator statement that was not valid XGo (`func(n int) // c\\n{…}`) → removed.
* C38: harness did not append its sentinel for two hostile kinds → fixed.
* C39: scenario designs that deadlock by construction (mutual callbacks, half-broken transport) → redesigned.
* C02/C05/C25/C01 generators producing ill-typed or non-terminating programs (placeholder clash with identifiers,
  `fl := 100`, writable loop counters, `[]` as []any source) → generators fixed; go/types validation is a skip, not a
  verdict.
* C06 (thorough): the mechanical `main`→`Main` rename clashed with a corpus program that declares `Main` itself →
  renamed to a reserved name; `} else if …{` headers were not recognised by the composite-literal classifier.
* C07 (thorough): a harvested "snippet" that is itself error-message text was echoed inside a multi-line compiler message
  and its lines were parsed as further error entries → only the head line of an entry carries a position.
* C17 (thorough): slices holding a comment and a line break are not context-free → R5 skipped for them.
* C14 (vp check / other seeds): re-spacing produced whitespace-sensitive command-syntax variants → generator keeps those
  places, variants classified.
* C09: run-time function entry line (prologue attribution of the Go compiler) → judged statically instead.
* C12: nodes of sub-parsed literals (tpl grammar inside a domain-text literal) reported as foreign → count as file nodes.
* Driver bugs found by their own symptoms: `continue` inside select after a watchdog (nil dereference), crash
  violations without case index, relative replay paths.
None of these is listed as a known finding.
"""
