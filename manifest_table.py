NA = {}
reg("C15", "exploration", "runtime monitor: structural invariant on every Scan result (offsets, exact text, byte coverage) over exhaustive short strings + lexeme streams + hostile bytes + corpus mutants",
    "Every input of the run is scanned by the real scanner in both comment modes and an independent checker re-derives each token's extent from the source bytes; short strings over a hostile alphabet are enumerated exhaustively. Assurance = held on the executions observed (10^5 quick / 4*10^6 thorough), not a proof.",
    "Trusts the harness's CR-tolerant literal matcher and Go's utf8 decoder; says nothing about inputs not generated.")
reg("C16", "exploration", "runtime monitor: differential execution against go/scanner (reference implementation) with a reference-side domain filter; exhaustive short numeric/escape spellings + random Go lexeme streams",
    "Both scanners run on every generated Go-lexeme input; token kinds, offsets, literals, inserted semicolons and error offsets are compared. All strings up to length 4 (quick) / 6 (thorough) over the number alphabet and all escape bodies up to length 4/5 are enumerated. Held-on-observed-executions assurance.",
    "go/scanner of the installed toolchain is the oracle; auto-semicolon offsets and their order relative to comments are normalised because go/scanner changed that in Go 1.20 (XGo follows go 1.18).")
reg("C32", "exploration", "runtime monitor: differential execution TPL scanner vs XGo scanner on shared lexemes (reference-side domain filter), exhaustive short strings + lexeme streams + corpus mutants",
    "Every in-domain input is scanned by both scanners in both comment modes and the (kind, offset, literal, auto-semicolon) sequences must be identical. Held on the executions observed.",
    "The XGo scanner is the reference (itself monitored by C15/C16); error diagnostics are not compared (not part of the property).")
reg("C33", "exploration", "runtime monitor over an exhaustively enumerated finite space: every token value of both token tables scanned in 4 contexts, String/Len/Precedence/IsOperator asserted",
    "The token space is finite and enumerated completely (exhaustive=true): every operator/keyword spelling is scanned by the real scanners and must come back as exactly that token.",
    "The harness's spelling tables restate the documented spellings; tokens added later are picked up through String().")
reg("C13", "exploration", "runtime monitor: panic/fatal capture in crash-isolated workers + logical step-budget hook (build tag verif) + error-order and Bad-node invariants over token soup, hostile bytes, deep nesting and corpus mutants in 11 mode combinations and 5 entry points",
    "Every generated input is parsed by the real parser through ParseFile/class mode/ParseExpr/ParseExprFrom/ParseFSDir; a panic or runtime fatal error is attributed to the journalled case; hangs are decided by a step counter hooked into next0/error/advance/parseStmt/parseOperand, never by wall clock.",
    "Nesting depth is bounded (2*10^3 quick, 2*10^4 thorough); a loop that never reaches a hooked function would only trip the wall-clock watchdog (inconclusive).")
