NA = {}
reg("C15", "exploration", "runtime monitor: structural invariant on every Scan result (offsets, exact text, byte coverage) over exhaustive short strings + lexeme streams + hostile bytes + corpus mutants",
    "Every input of the run is scanned by the real scanner in both comment modes and an independent checker re-derives each token's extent from the source bytes; short strings over a hostile alphabet are enumerated exhaustively. Assurance = held on the executions observed (10^5 quick / 4*10^6 thorough), not a proof.",
    "Trusts the harness's CR-tolerant literal matcher and Go's utf8 decoder; says nothing about inputs not generated.")
reg("C16", "exploration", "runtime monitor: differential execution against go/scanner (reference implementation) with a reference-side domain filter; exhaustive short numeric/escape spellings + random Go lexeme streams",
    "Both scanners run on every generated Go-lexeme input; token kinds, offsets, literals, inserted semicolons and error offsets are compared. All strings up to length 4 (quick) / 6 (thorough) over the number alphabet and all escape bodies up to length 4/5 are enumerated. Held-on-observed-executions assurance.",
    "go/scanner of the installed toolchain is the oracle; auto-semicolon offsets and their order relative to comments are normalised because go/scanner changed that in Go 1.20 (XGo follows go 1.18).")
reg("C32", "exploration", "runtime monitor: differential execution TPL scanner vs XGo scanner on shared lexemes (reference-side domain filter), exhaustive short strings + lexeme streams + corpus mutants",
    "Every in-domain input is scanned by both scanners in both comment modes and the (kind, offset, literal, auto-semicolon) sequences must be identical. Held on the executions observed.",
    "The XGo scanner is the reference (itself monitored by C15/C16); error diagnostics are not compared (not part of the property).")
reg("C33", "exploration", "runtime monitor over an exhaustively enumerated finite space: every token value of both token tables scanned in 4 contexts, String/Len/Precedence/IsOperator asserted",
    "The token space is finite and enumerated completely (exhaustive=true): every operator/keyword spelling is scanned by the real scanners and must come back as exactly that token.",
    "The harness's spelling tables restate the documented spellings; tokens added later are picked up through String().")
reg("C13", "exploration", "runtime monitor: panic/fatal capture in crash-isolated workers + logical step-budget hook (build tag verif) + error-order and Bad-node invariants over token soup, hostile bytes, deep nesting and corpus mutants in 11 mode combinations and 5 entry points",
    "Every generated input is parsed by the real parser through ParseFile/class mode/ParseExpr/ParseExprFrom/ParseFSDir; a panic or runtime fatal error is attributed to the journalled case; hangs are decided by a step counter hooked into next0/error/advance/parseStmt/parseOperand, never by wall clock.",
    "Nesting depth is bounded (2*10^3 quick, 2*10^4 thorough); a loop that never reaches a hooked function would only trip the wall-clock watchdog (inconclusive).")
reg("C27", "exploration", "runtime monitor: panic capture around tpl.New/tpl.NewEx over exhaustively enumerated literal/token spellings, a grammar-of-grammars generator and byte-mutated repository grammars",
    "Every grammar text of the run is compiled by the real tpl.New and tpl.NewEx in crash-isolated workers; every byte value in 6 escape spellings and every token spelling with 1-character mutations are enumerated exhaustively.",
    "Ret-proc closures are not exercised.")
reg("C28", "exploration", "runtime monitor: progress hooks inside the matcher (build tag verif) — a repetition back-edge that consumed nothing, or a rule re-entered at the same input position, proves divergence logically; step budget exhaustion is inconclusive",
    "Random grammars biased to nullable repetition bodies and left recursion are compiled and, if accepted, matched against 15 inputs through Match/ParseExpr/Parse with the hooks armed; no wall-clock verdicts.",
    "Matchers are pure functions of the remaining input; ret-procs are not used.")
reg("C29", "exploration", "runtime monitor: differential execution against a ~100-line reference PEG interpreter restating tpl/README.md (result trees compared token-by-offset), inputs = grammar derivations perturbed into near-matches",
    "For every generated grammar/input pair Compiler.Match must agree with the reference on success/failure, tokens consumed and the result tree.",
    "Domain restriction stated in evidence.rule: choice alternatives and repetition bodies are non-nullable (README is silent there).")
reg("C30", "exploration", "runtime monitor: left-fold reference model for List/ListOp/RangeOp/BinaryOp/BinaryExpr on synthetic `R % sep` results + README calculator vs precedence-climbing evaluator",
    "Non-commutative, non-associative fold functions make any order/associativity error visible in the result string; the calculator is the README grammar compiled by the real tpl.New.",
    "int64 arithmetic; division-by-zero expressions skipped.")
reg("C31", "exploration", "runtime monitor: reference printer/parser round-trip — random grammar expression trees printed with minimal parentheses must parse back to the same tree; damaged texts must be rejected",
    "tpl/parser.ParseFile runs on every printed tree; the shape of the returned tree is compared with the generator's tree.",
    "The harness printer restates the documented precedence unary > ++ > % > sequence > |.")
reg("C34", "exploration", "runtime monitor: reference model (30-line restatement of the selection/classification rule) compared with ParseFSDir/ParseFSEntry on generated in-memory directories and class-kind configurations",
    "Each generated directory is parsed by the real ParseFSDir over a harness FileSystem (with sub-directories); the returned package map must equal the model's; every regular entry is also passed through ParseFSEntry.",
    "File contents are tiny valid sources (or valid package clause + late syntax error); the model restates the property text.")
reg("C35", "exploration", "runtime monitor over an exhaustively enumerated space: every argument list up to length 5 (quick) / 6 (thorough) over a 14-symbol class-complete alphabet, partition model vs ParseAll",
    "The argument-list space up to the bound is enumerated completely (exhaustive=true); classification of a single argument comes from ParseOne on the singleton and is pinned by 12 documented examples.",
    "The alphabet covers file-like, local-directory, package-path and edge-case arguments; longer lists are not explored.")
reg("C36", "exploration", "runtime monitor: recorded file-system histories on a real temporary module + sequential model of {(name,size,mtime)}; equal model states <=> equal PkgHash over all pairs of points of a history",
    "Every operation of a generated history is applied to a real directory and Importer.PkgHash is observed after each; mtimes are set explicitly so the oracle never reads the clock.",
    "Same-size same-mtime content edits, symlinks and special files are outside the property.")
reg("C38", "exploration", "runtime monitor: frame/unframe round-trip through readers delivering 1..n bytes per Read + 16 classes of hostile frames followed by intact frames (no panic, error-or-message, no over/under-read)",
    "Messages written by the real HeaderFramer writer are read back by the real reader and compared as JSON values with ids compared exactly; damaged frames must produce errors and leave the stream positioned exactly after the declared length.",
    "Methods are non-empty UTF-8; top-level params/results are never the literal null.")
reg("C18", "exploration", "runtime monitor: reference traversal by reflection (never ast.Walk) — expected Visit/Visit(nil) event stream with children in source order vs ast.Walk and ast.Inspect on parsed corpus/generated trees and on synthesised trees rooted at every node type",
    "The oracle enumerates child nodes independently of walk.go; parsed trees are compared event by event, synthesised trees by per-parent child multisets and nil protocol; every node type of package ast must be observed.",
    "Child = exported field holding an ast.Node (also inside StringLitEx/DomainTextLitEx/[]any parts); documented exceptions: shadow-entry FuncDecl exposes only Body, File.Name skipped without package clause. cl front-end trees are covered via C07's workload, not here.")
reg("C19", "exploration", "runtime monitor: round-trip invariant parse(format(x)) shape-equal to parse(x) via an independent reflection comparator; corpus + harvested snippets + syntactic generator over all Go/XGo node kinds + re-spaced variants; formatter in crash-isolated workers",
    "format.Source runs on every valid source; its output must parse and be shape-equal to the input tree (positions, comments, redundant parentheses, empty statements, numeric literal spelling and import order inside a declaration ignored).",
    "Domain = sources the parser accepts without error; gofmt conventions inherited by the formatter (parenthesis stripping in headers, dropping empty statements, number normalisation) are not counted as tree changes.")
reg("C20", "exploration", "runtime monitor: metamorphic invariant format(format(x)) == format(x) byte-for-byte on corpus, harvested, generated and re-spaced sources",
    "Two real formatting passes per source; any byte difference is a violation, located by the innermost node kinds around the first difference.",
    "Comment-injected sources are not part of this property's quantifier (they belong to C21).")
reg("C21", "exploration", "runtime monitor: conservation invariant on comment texts (exactly once, same order) with uniquely numbered comments injected at random token boundaries; failing cases are shrunk to the minimal set of injected comments and named after the node kind that contains them",
    "Unique comment ids make 'exactly once, in order' decidable from the scanner's comment token sequence of input and output.",
    "Comment texts are normalised by right-trimming lines and dropping block-comment re-indentation; injection that makes the source invalid is discarded.")
reg("C17", "exploration", "runtime monitor: structural span invariants (token-aligned Pos/End, child-inside-parent, ordered non-overlapping siblings) checked by an independent reflection walker against the scanner's token table, plus ParseExpr(source slice) shape-equality for context-free expression kinds; rules that go/ast itself breaks are calibrated on go/parser trees and frozen",
    "Every node of every error-free parse of the run is checked; the two inherited go/ast conventions found by calibration are listed in the evidence.",
    "Nodes inside interpolated strings and domain-text arguments live inside one scanner token and are only checked for containment; synthetic nodes are skipped.")
reg("C22", "exploration", "runtime monitor: round-trip of programmatically built, position-free, parenthesis-free xgo/ast trees through printer.Fprint and the parser (bare expression, statement, if/for/switch header), shape comparison with ParenExprs deleted; failing trees are reduced to the smallest sub-tree that fails in isolation",
    "Every generated tree is printed by the real printer and re-parsed by the real parser; all binary operators, unary/star/arrow chains, postfix operations on non-primary operands and the XGo node kinds are covered.",
    "Well-formedness as generated (DESIGN.md §C22): lambdas as call arguments, bracket/brace literals not as postfix operands or as the left operand of '*', no bare `x!` directly before ':'; these exclusions are syntax that XGo cannot express without source-level parentheses chosen by the author.")
reg("C23", "exploration", "runtime monitor: conservation invariant on the (name,path) set per import declaration and sortedness of every contiguous run after format.Source, on generated import sections (groups, names, duplicates, comments, raw paths)",
    "The real formatter runs on every generated section; the import multiset may only shrink by exact duplicates and every run of specs on successive lines must be sorted by path.",
    "Import paths are compared unquoted; comment attachment and group boundaries are generated for coverage but not judged (not part of the property statement).")
reg("C24", "exploration", "runtime monitor: conservation (length, byte multiset, comment multiset) + reference model (independent bracket-depth splitter over the scanner's token stream) for RearrangeFuncs, and the SourceEx implication checked with the real format.Source",
    "Top-level statements of input and output are compared as token sequences, so the oracle is independent of how the implementation attaches whitespace and comments to chunks.",
    "A function declaration is `func name(` or `func (recv) name(`; func literals called in place are statements.")
reg("C14", "exploration", "runtime monitor: differential execution against go/parser (reference implementation) with a cross-package reflection shape comparator, on the repository's and 16 std packages' .go files, re-spaced variants (kept only if go/parser yields the same tree) and generated Go files",
    "go/parser defines acceptance and the reference tree; the XGo parser must accept the same bytes and produce the same node types, identifiers, literals and operators (XGo-only fields zero).",
    "Corpus files are taken to be well-typed because they build; four by-design/unsupported Go features are recorded as known findings by feature signature.")
reg("C37", "exploration", "runtime monitor: round-trip togo(fromgo(f)) per declaration compared through go/printer header text, panic capture, on repository + 20 std packages' .go files (generics, unions, tags, iota, func-typed vars) and generated Go files",
    "Every declaration of every file is converted both ways by the real code and its printed header must be identical to the original's.",
    "Function and closure bodies are removed on both sides (the conversion documents that it skips them); Doc/Comment fields cleared.")
reg("C40", "exploration", "runtime monitor: recorded call/return histories at the client boundary checked for linearizability against a sequential set-of-flags model with porcupine (partitioned by directory), -race build, yield hooks between Unlock and Broadcast, quiescent-point inspection hook, goroutine-state deadlock monitor for lost wake-ups",
    "Every history is produced by the real watcher under concurrent producers/consumers with few keys; porcupine decides each history; a lost wake-up is decided logically by the deadlock monitor (all goroutines blocked on synchronisation primitives), never by a timeout.",
    "Interleavings are sampled, not enumerated (the property's 'exhaustively in the model' half is outside this family); porcupine timeout = inconclusive.")
reg("C41", "exploration", "runtime monitor: framed byte streams with per-writer sequence numbers and checksums over fakenet connection pairs (io.Pipe/os.Pipe/net.Pipe), close at random points, post-close call oracle, -race build, yield hooks inside the feeder, goroutine-state deadlock monitor for stuck calls",
    "Unique (writer, seq) frames make order/loss/duplication/corruption decidable from the received bytes; every call started after Close returned must yield (0, io.EOF); stuck pending calls end in the deadlock monitor.",
    "One reader per direction; closing the reading end may drop data its feeder already holds (inherent, outside the statement).")
