NA = {}
reg("C15", "exploration", "runtime monitor: structural invariant on every Scan result (offsets, exact text, byte coverage) over exhaustive short strings + lexeme streams + hostile bytes + corpus mutants",
    "Every input of the run is scanned by the real scanner in both comment modes and an independent checker re-derives each token's extent from the source bytes; short strings over a hostile alphabet are enumerated exhaustively. Assurance = held on the executions observed (10^5 quick / 4*10^6 thorough), not a proof.",
    "Trusts the harness's CR-tolerant literal matcher and Go's utf8 decoder; says nothing about inputs not generated.")
