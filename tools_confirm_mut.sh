#!/bin/sh
# usage: tools_confirm_mut.sh <ID> <outdir> <demo-dest-rel-path> <pkg> <run-pattern> "<test pkgs>"
# Confirms in a fresh scratch worktree of /repo: patch applies and builds, listed test packages pass with it,
# the demo fails with it and passes without it. Removes the worktree afterwards.
ID="$1"; OUT="$2"; DEST="$3"; PKG="$4"; PAT="$5"; TESTS="$6"
WT=/tmp/confirm-$ID-$$
git -C /repo worktree add -q --detach "$WT" HEAD || exit 9
cd "$WT" || exit 9
RES=ok
git apply "$OUT/patch.diff" || RES="patch-does-not-apply"
if [ "$RES" = ok ]; then
  go build ./cl/... ./parser/... ./tpl/... ./x/jsonrpc2/... ./x/watcher/... ./x/fakenet/... ./scanner/... ./printer/... ./format/... ./ast/... ./tool/... ./cmd/... >/dev/null 2>&1 || RES="build-fails"
fi
if [ "$RES" = ok ]; then
  go test -mod=mod -vet=off -count=1 $TESTS > test.log 2>&1 || RES="existing-tests-fail"
  grep -E "^(FAIL|---)" test.log | head -5
fi
if [ "$RES" = ok ]; then
  cp "$OUT"/demo*_test.go "$DEST" 2>/dev/null || cp "$OUT"/demo_test.go "$DEST"
  if go test -mod=mod -vet=off -count=1 -run "$PAT" "$PKG" > demo_with.log 2>&1; then RES="demo-passes-with-change"; fi
  git apply -R "$OUT/patch.diff"
  if ! go test -mod=mod -vet=off -count=1 -run "$PAT" "$PKG" > demo_without.log 2>&1; then RES="demo-fails-without-change"; tail -5 demo_without.log; fi
fi
cd /; git -C /repo worktree remove --force "$WT"
echo "CONFIRM $ID: $RES"
